#!/bin/bash
# Binding check (DESIGN.md 2.9): the repository's own test suite, unedited, is compiled against
# the *instrumented* netpoll (the same overlay the checks explore, scheduler inactive = every
# shim forwards to the real primitive) and must pass. Variants: default, -fine, -race.
# Tests bind fixed TCP ports, so they run in a private network namespace when unshare works.
set -u
export GOFLAGS=-mod=mod GOPROXY=off GOSUMDB=off GOTOOLCHAIN=local
V=$(cd "$(dirname "$0")/.." && pwd)
REPO=${VERIF_REPO:-/repo}
W=$V/work/conformance; rm -rf $W; mkdir -p $W
cp $REPO/go.sum $V/harness/go.sum
ns() { if unshare -n true 2>/dev/null; then unshare -n bash -c "ip link set lo up; $1"; else bash -c "$1"; fi; }
rc=0
for flav in default fine race; do
  iargs=""; bargs=""
  [ $flav = fine ] && iargs="-fine"
  [ $flav = race ] && bargs="-race"
  $V/bin/instrument -out $W/ov-$flav -repo $REPO $iargs > /dev/null || { echo "instrument failed"; exit 2; }
  for pkg in github.com/cloudwego/netpoll github.com/cloudwego/netpoll/mux; do
    bin=$W/$(basename $pkg)-$flav.test
    (cd $V/harness && go test -c $bargs -tags verif -vet=off -overlay $W/ov-$flav/overlay.json -o $bin $pkg) || { echo "build failed: $pkg $flav"; rc=1; continue; }
    dir=$REPO; [ $(basename $pkg) = mux ] && dir=$REPO/mux
    out=$(cd $dir && ns "GORACE=halt_on_error=0 $bin -test.count=1 -test.timeout=20m" 2>&1); e=$?
    n=$(cd $dir && $bin -test.list '.*' | grep -c '^Test')
    echo "conformance flavour=$flav pkg=$(basename $pkg) tests=$n exit=$e $(echo "$out" | tail -1)"
    [ $e != 0 ] && { rc=1; echo "$out" | tail -40; }
  done
done
rm -rf $W
exit $rc
