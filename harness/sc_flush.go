package main

import (
	"errors"
	"fmt"
	"strings"
	"syscall"
	"time"

	"github.com/cloudwego/netpoll"
	"verif/engine/shim/vsyscall"
	"verif/engine/vsched"
)

// ---- C08: Flush completes exactly when the kernel has taken the data (conn.flush) ----

func init() {
	register("conn.flush", func(tier string) []Variant {
		var vs []Variant
		for _, size := range []int{100, 9000, 20000} {
			for _, mode := range []string{"none", "timeout"} {
				for _, peer := range []string{"drain-big", "drain-small", "nodrain", "close"} {
					for _, extra := range []string{"-", "localclose", "flush2", "twice"} {
						if size == 100 && (peer == "drain-small" || extra == "localclose") {
							continue
						}
						if peer == "nodrain" && (mode == "none" && size > 100 && extra != "localclose") {
							continue // Flush legitimately waits for ever
						}
						if extra == "twice" && (peer != "drain-big" || (mode != "none" && size == 100)) {
							continue // twice+timeout: the reused write timer has a history when the second flush waits
						}
						if extra == "flush2" && (peer == "close" || mode == "timeout") {
							continue // flushing again after a reported write error is outside the guarantee (C04 scope)
						}
						for _, dev := range []bool{false, true} {
							if dev && (extra != "-" || peer == "close" || peer == "nodrain") {
								continue
							}
							size, mode, peer, extra, dev := size, mode, peer, extra, dev
							vs = append(vs, Variant{
								Name: fmt.Sprintf("size=%d,mode=%s,peer=%s,extra=%s,shortwrites=%v", size, mode, peer, extra, dev),
								Make: func() *vsched.Scenario { return flushScenario(size, mode, peer, extra, dev) },
							})
						}
					}
				}
			}
		}
		return vs
	})
}

func flushScenario(size int, mode, peer, extra string, dev bool) *vsched.Scenario {
	var a, b int
	var recv []byte
	var uErrs []error
	var u2Err error
	var uDone, u2Done, peerClosed, flushCalled bool
	submitted := 0
	sc := &vsched.Scenario{Name: "conn.flush", Horizon: 8000}
	sc.Body = func() {
		recv, uErrs, u2Err, uDone, peerClosed, submitted, flushCalled = nil, nil, nil, false, false, 0, false
		u2Done = extra != "flush2"
		netpoll.VerifReset(1)
		a, b = vsyscall.HSocketpair(4096)
		vsyscall.Adopt(a)
		vsyscall.L().Dev.SendShort = dev
		c, err := netpoll.VerifFDConn(a, "unix")
		if err != nil {
			panic(err)
		}
		if mode == "timeout" {
			c.SetWriteTimeout(time.Second)
		}
		rounds := 1
		if extra == "twice" {
			rounds = 2
		}
		vsched.Go("flusher", func() {
			for i := 0; i < rounds; i++ {
				w := c.Writer()
				p, err := w.Malloc(size)
				if err != nil {
					uErrs = append(uErrs, err)
					break
				}
				copy(p, stream(submitted, size))
				submitted += size
				vsched.LogEvent(fmt.Sprintf("flush%d:start", i))
				flushCalled = true
				err = w.Flush()
				vsched.LogEvent(fmt.Sprintf("flush%d:end %s", i, errClass(err)))
				uErrs = append(uErrs, err)
				if err != nil {
					break
				}
			}
			uDone = true
		})
		if extra == "flush2" {
			vsched.Go("flusher2", func() {
				// the second Flush is issued once the first one has been called (one writer fills the buffer)
				vsched.WaitCond("first-flush-called", func() bool { return flushCalled })
				u2Err = c.Writer().Flush()
				vsched.LogEvent("flush2:end " + errClass(u2Err))
				u2Done = true
			})
		}
		if extra == "localclose" {
			vsched.Go("closer", func() {
				vsched.LogEvent("close-call")
				c.Close()
			})
		}
		vsched.Go("peer", func() {
			chunk := 65536
			if peer == "drain-small" {
				chunk = 1500
			}
			buf := make([]byte, chunk)
			if peer == "close" {
				vsyscall.HClose(b)
				peerClosed = true
				vsched.LogEvent("peer:closed")
				return
			}
			for {
				drain := peer != "nodrain"
				vsched.WaitCond("peer-readable-or-done", func() bool {
					return (uDone && u2Done) || (drain && vsyscall.HReadable(b))
				})
				if peer == "nodrain" && !(uDone && u2Done) {
					continue
				}
				// after the flusher is done (or while draining) take whatever the kernel holds
				n, err := vsyscall.HRead(b, buf)
				if n > 0 {
					recv = append(recv, buf[:n]...)
					continue
				}
				if n == 0 && err == nil {
					return // end of stream: the netpoll side closed its descriptor
				}
				if uDone && u2Done && (err == syscall.EAGAIN || n == 0) {
					return
				}
			}
		})
	}
	sc.Outcome = func(ex *vsched.Exec) string {
		var o []string
		for _, e := range uErrs {
			o = append(o, errClass(e))
		}
		return fmt.Sprintf("%s|u2=%s|recv=%d", strings.Join(o, ","), errClass(u2Err), len(recv))
	}
	sc.Check = func(ex *vsched.Exec) []vsched.Violation {
		vs := baseChecks("C08", ex, true)
		add := func(sig, msg string) { vs = append(vs, vsched.Violation{Sig: "C08 " + sig, Msg: msg}) }
		l := logIdx{ex}
		if ex.End == vsched.EndDeadlock {
			canFinish := peer == "drain-big" || peer == "drain-small" || peer == "close" || mode == "timeout" || extra == "localclose"
			if !(uDone && u2Done) && canFinish {
				add("flush-never-returns mode="+mode+" peer="+peer+" extra="+extra, "Flush blocked for ever although the peer drains / a timeout is set / the connection was closed: "+ex.EndMsg)
			} else if uDone {
				add("deadlock-after-flush", ex.EndMsg)
			}
			return vs
		}
		if ex.End != vsched.EndQuiescent {
			return vs
		}
		want := stream(0, submitted)
		if len(recv) > submitted || string(recv) != string(want[:len(recv)]) {
			add("stream-corrupt", fmt.Sprintf("peer received %d bytes that are not a prefix of the %d submitted (first diff at %d)", len(recv), submitted, firstDiff(recv, want)))
		}
		okBytes := 0
		for i, e := range uErrs {
			start, endI := l.first(fmt.Sprintf("flush%d:start", i)), l.firstPrefix(fmt.Sprintf("flush%d:end", i))
			fired := false
			for j := start; j >= 0 && j <= endI && j < len(ex.Log); j++ {
				if strings.HasPrefix(ex.Log[j].Msg, "timer:fire") {
					fired = true
				}
			}
			switch {
			case e == nil:
				okBytes += size
			case errors.Is(e, netpoll.ErrWriteTimeout):
				if mode != "timeout" {
					add("timeout-without-timer", "Flush returned ErrWriteTimeout although no write timeout is set")
				} else if !fired {
					add("timeout-without-fire", "Flush returned ErrWriteTimeout although its timer had not expired during the call")
				}
			case errors.Is(e, netpoll.ErrConcurrentAccess):
				if extra != "flush2" {
					add("concurrent-without-second-flush", "Flush returned ErrConcurrentAccess although no other Flush was issued")
				}
			case errors.Is(e, netpoll.ErrConnClosed):
				if extra != "localclose" && !peerClosed {
					add("closed-without-close", "Flush returned ErrConnClosed although nobody closed the connection")
				}
			default:
				// kernel error (EPIPE/ECONNRESET after the peer closed)
				if !peerClosed {
					add("unexpected-error", fmt.Sprintf("Flush returned %v", e))
				}
			}
		}
		// nil means the kernel has every byte: the peer can read them without any help from netpoll
		if okBytes > 0 && !peerClosed && len(recv) < okBytes {
			add("nil-before-kernel-has-data", fmt.Sprintf("Flush returned nil for %d bytes but the peer could only read %d", okBytes, len(recv)))
		}
		if extra == "flush2" && u2Err != nil && !errors.Is(u2Err, netpoll.ErrConcurrentAccess) && !errors.Is(u2Err, netpoll.ErrWriteTimeout) && !errors.Is(u2Err, netpoll.ErrConnClosed) {
			add("second-flush-error", fmt.Sprintf("the concurrent Flush returned %v", u2Err))
		}
		return vs
	}
	return sc
}
