package main

import (
	"fmt"
	"strings"

	"github.com/cloudwego/netpoll"
	"verif/engine/alloc"
	"verif/engine/shim/vsync"
	"verif/engine/vsched"
)

// ---- C02 / C03: Slice readers read and released from other goroutines, in any order relative to
// the parent (lb.share). The sequential search (lb) exercises the reference counts in every
// order of operations; this scenario adds the interleavings of the parent's reader with up to two
// Slice readers owned by other goroutines, over the same instrumented allocator and node pool.

func init() {
	register("lb.share", func(tier string) []Variant {
		var vs []Variant
		for _, shape := range []string{"single", "multi", "two", "nested", "nested-multi"} {
			for _, parent := range []string{"next-release", "drain-release", "close", "drain-write-release", "slice-again"} {
				shape, parent := shape, parent
				vs = append(vs, Variant{
					Name: fmt.Sprintf("shape=%s,parent=%s", shape, parent),
					Make: func() *vsched.Scenario { return lbShareScenario(shape, parent) },
				})
			}
		}
		return vs
	})
	// same drivers with a scheduling point before every statement of the LinkBuffer methods
	register("lb.share.fine", func(tier string) []Variant {
		var vs []Variant
		for _, shape := range []string{"single", "two", "nested", "nested-multi"} {
			for _, parent := range []string{"drain-release", "close", "slice-again"} {
				shape, parent := shape, parent
				vs = append(vs, Variant{
					Name: fmt.Sprintf("shape=%s,parent=%s", shape, parent),
					Make: func() *vsched.Scenario { return lbShareScenario(shape, parent) },
				})
			}
		}
		return vs
	})
}

func lbShareScenario(shape, parent string) *vsched.Scenario {
	var led *alloc.Ledger
	var pool *vsync.PoolLedger
	var bad []string // content verdicts (C02)
	var notes []string
	sc := &vsched.Scenario{Name: "lb.share", Horizon: 4000}
	sc.Body = func() {
		bad, notes = nil, nil
		freeAsPoint = true
		led = alloc.Reset()
		pool = &vsync.PoolLedger{}
		vsync.Ledger = pool
		netpoll.LinkBufferCap = 8
		buf := netpoll.NewLinkBuffer(8)
		// 24 readable bytes over three 8-byte nodes
		for i := 0; i < 3; i++ {
			p, _ := buf.Malloc(8)
			copy(p, stream(8*i, 8))
			buf.Flush()
		}
		off := 0
		type share struct {
			name string
			rd   netpoll.Reader
			off  int
			n    int
		}
		var shares []*share
		cut := func(from netpoll.Reader, name string, at, n int) *share {
			r, err := from.Slice(n)
			if err != nil || r == nil {
				panic(fmt.Sprintf("Slice(%d): %v", n, err))
			}
			s := &share{name: name, rd: r, off: at, n: n}
			shares = append(shares, s)
			return s
		}
		switch shape {
		case "single":
			cut(buf, "s1", off, 3)
			off += 3
		case "multi":
			cut(buf, "s1", off, 10)
			off += 10
		case "two":
			cut(buf, "s1", off, 3)
			off += 3
			cut(buf, "s2", off, 3)
			off += 3
		case "nested":
			s1 := cut(buf, "s1", off, 6)
			off += 6
			cut(s1.rd, "s2", s1.off, 2)
			s1.off += 2
			s1.n -= 2
		case "nested-multi":
			s1 := cut(buf, "s1", off, 12)
			off += 12
			cut(s1.rd, "s2", s1.off, 10)
			s1.off += 10
			s1.n -= 10
		}
		check := func(who, what string, got []byte, at int) {
			examinePool(who + " examines " + what)
			want := stream(at, len(got))
			if string(got) != string(want) {
				kind := "changed"
				if d := firstDiff(got, want); d < len(got) && got[d] == alloc.Poison {
					kind = "freed"
				}
				bad = append(bad, fmt.Sprintf("%s %s: %d bytes at stream offset %d %s before the reader was released (first diff at %d)", who, what, len(got), at, kind, firstDiff(got, want)))
			}
		}
		for _, s := range shares {
			s := s
			vsched.Go(s.name, func() {
				p, err := s.rd.Next(s.n)
				if err != nil {
					bad = append(bad, fmt.Sprintf("%s Next(%d): %v", s.name, s.n, err))
					return
				}
				check(s.name, "Next", p, s.off)
				check(s.name, "Next(re-examined)", p, s.off) // still intact right before its own Release
				s.rd.Release()
			})
		}
		vsched.Go("parent", func() {
			rest := 24 - off
			switch parent {
			case "next-release":
				p, _ := buf.Next(2)
				check("parent", "Next", p, off)
				buf.Release()
			case "drain-release", "drain-write-release":
				p, _ := buf.Next(rest)
				check("parent", "Next", p, off)
				buf.Release()
				if parent == "drain-write-release" {
					q, _ := buf.Malloc(8)
					copy(q, stream(24, 8))
					buf.Flush()
					r, _ := buf.Next(8)
					check("parent", "Next(new data)", r, 24)
					buf.Release()
				}
			case "close":
				buf.Close()
			case "slice-again":
				s3, err := buf.Slice(2)
				if err != nil {
					bad = append(bad, "parent Slice(2): "+err.Error())
					return
				}
				p, _ := s3.Next(2)
				check("parent", "slice3.Next", p, off)
				buf.Release()
				check("parent", "slice3.Next(re-examined)", p, off)
				s3.Release()
			}
		})
	}
	sc.Outcome = func(ex *vsched.Exec) string {
		live := 0
		for _, b := range led.Blocks {
			if b.Live {
				live++
			}
		}
		return fmt.Sprintf("mallocs=%d frees=%d live=%d", led.Mallocs, led.Frees, live)
	}
	sc.Check = func(ex *vsched.Exec) []vsched.Violation {
		vsync.Ledger = nil
		freeAsPoint = false
		alloc.Disable()
		var vs []vsched.Violation
		for _, v := range baseChecks("C03", ex, false) {
			vs = append(vs, v, vsched.Violation{Sig: "C02" + strings.TrimPrefix(v.Sig, "C03"), Msg: v.Msg})
		}
		for _, b := range bad {
			f := strings.Fields(b)
			vs = append(vs, vsched.Violation{Sig: "C02 shared-result-not-intact who=" + f[0], Msg: b})
			if strings.Contains(b, " freed ") {
				vs = append(vs, vsched.Violation{Sig: "C03 premature-free-concurrent seen-by=" + f[0], Msg: b})
			}
		}
		for _, v := range led.Violations {
			vs = append(vs, vsched.Violation{Sig: "C03 " + strings.SplitN(v, ":", 2)[0] + " concurrent", Msg: v})
		}
		for _, d := range pool.Doubles {
			vs = append(vs, vsched.Violation{Sig: "C03 node-recycled-twice concurrent", Msg: d})
		}
		_ = notes
		return vs
	}
	return sc
}
