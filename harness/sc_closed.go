package main

import (
	"context"
	"errors"
	"fmt"
	"strings"
	"time"

	"github.com/cloudwego/netpoll"
	"verif/engine/shim/vsyscall"
	"verif/engine/vsched"
)

// ---- C12: a closed connection answers with errors, not panics or hangs (closed.api) ----

type apiCall struct {
	name   string
	writer bool // a Writer call: must fail with ErrConnClosed
	need   int  // a Reader call that needs this many bytes (0: no requirement)
	fn     func(c netpoll.Connection) ([]byte, error)
}

func apiCalls() []apiCall {
	rd := func(name string, n int, f func(r netpoll.Reader) ([]byte, error)) apiCall {
		return apiCall{name: name, need: n, fn: func(c netpoll.Connection) ([]byte, error) { return f(c.Reader()) }}
	}
	wr := func(name string, f func(w netpoll.Writer) error) apiCall {
		return apiCall{name: name, writer: true, fn: func(c netpoll.Connection) ([]byte, error) { return nil, f(c.Writer()) }}
	}
	misc := func(name string, f func(c netpoll.Connection) error) apiCall {
		return apiCall{name: name, fn: func(c netpoll.Connection) ([]byte, error) { return nil, f(c) }}
	}
	return []apiCall{
		misc("IsActive", func(c netpoll.Connection) error { c.IsActive(); return nil }),
		misc("Len", func(c netpoll.Connection) error { c.Reader().Len(); return nil }),
		rd("Next(1)", 1, func(r netpoll.Reader) ([]byte, error) { return r.Next(1) }),
		rd("Next(3)", 3, func(r netpoll.Reader) ([]byte, error) { return r.Next(3) }),
		rd("Next(4)", 4, func(r netpoll.Reader) ([]byte, error) { return r.Next(4) }),
		rd("Peek(1)", 1, func(r netpoll.Reader) ([]byte, error) { return r.Peek(1) }),
		rd("Peek(4)", 4, func(r netpoll.Reader) ([]byte, error) { return r.Peek(4) }),
		rd("Skip(1)", 1, func(r netpoll.Reader) ([]byte, error) { return nil, r.Skip(1) }),
		rd("Skip(4)", 4, func(r netpoll.Reader) ([]byte, error) { return nil, r.Skip(4) }),
		rd("ReadString(1)", 1, func(r netpoll.Reader) ([]byte, error) { s, e := r.ReadString(1); return []byte(s), e }),
		rd("ReadBinary(4)", 4, func(r netpoll.Reader) ([]byte, error) { return r.ReadBinary(4) }),
		rd("ReadByte", 1, func(r netpoll.Reader) ([]byte, error) { b, e := r.ReadByte(); return []byte{b}, e }),
		rd("Slice(1)", 1, func(r netpoll.Reader) ([]byte, error) {
			s, e := r.Slice(1)
			if e != nil {
				return nil, e
			}
			return s.Next(1)
		}),
		rd("Slice(4)", 4, func(r netpoll.Reader) ([]byte, error) { _, e := r.Slice(4); return nil, e }),
		misc("Until", func(c netpoll.Connection) error { _, e := c.Reader().Until('\n'); _ = e; return nil }),
		misc("Release", func(c netpoll.Connection) error { return c.Reader().Release() }),
		{name: "Read(4)", need: 1, fn: func(c netpoll.Connection) ([]byte, error) { // io.Reader style: needs one byte
			p := make([]byte, 4)
			n, e := c.Read(p)
			return p[:n], e
		}},
		wr("Malloc(1)", func(w netpoll.Writer) error { _, e := w.Malloc(1); return e }),
		misc("MallocLen", func(c netpoll.Connection) error { c.Writer().MallocLen(); return nil }),
		wr("Flush", func(w netpoll.Writer) error { return w.Flush() }),
		wr("MallocAck(0)", func(w netpoll.Writer) error { return w.MallocAck(0) }),
		wr("Append", func(w netpoll.Writer) error {
			b := netpoll.NewLinkBuffer()
			b.WriteString("x")
			return w.Append(b)
		}),
		wr("WriteString", func(w netpoll.Writer) error { _, e := w.WriteString("abc"); return e }),
		wr("WriteBinary", func(w netpoll.Writer) error { _, e := w.WriteBinary([]byte("abc")); return e }),
		wr("WriteDirect", func(w netpoll.Writer) error { return w.WriteDirect([]byte("abc"), 0) }),
		wr("WriteByte", func(w netpoll.Writer) error { return w.WriteByte('x') }),
		{name: "Write", writer: true, fn: func(c netpoll.Connection) ([]byte, error) { _, e := c.Write([]byte("abc")); return nil, e }},
		misc("Close", func(c netpoll.Connection) error { return c.Close() }),
		misc("SetOnRequest", func(c netpoll.Connection) error {
			return c.SetOnRequest(func(ctx context.Context, c netpoll.Connection) error {
				r := c.Reader() // a handler has to consume its input (documented contract)
				r.Next(r.Len())
				return r.Release()
			})
		}),
		misc("AddCloseCallback", func(c netpoll.Connection) error {
			return c.AddCloseCallback(func(netpoll.Connection) error { return nil })
		}),
		misc("SetReadTimeout", func(c netpoll.Connection) error { return c.SetReadTimeout(time.Second) }),
		misc("Addrs", func(c netpoll.Connection) error { c.RemoteAddr(); c.LocalAddr(); return nil }),
	}
}

func init() {
	register("closed.api", func(tier string) []Variant {
		var vs []Variant
		for _, kind := range []string{"client", "server"} {
			for _, mode := range []string{"user", "peer", "peer+user", "detach", "user2"} {
				for _, in := range []int{0, 3} {
					for _, out := range []int{0, 3} {
						if kind == "server" && in > 0 {
							continue // a server connection's handler consumes its input (contract)
						}
						kind, mode, in, out := kind, mode, in, out
						vs = append(vs, Variant{
							Name: fmt.Sprintf("kind=%s,close=%s,input=%d,output=%d", kind, mode, in, out),
							Make: func() *vsched.Scenario { return closedScenario(kind, mode, in, out, "") },
						})
					}
				}
			}
		}
		// the same, on a connection with a history: a read timeout is configured and an earlier timed
		// read has already waited (ended by data, or by its timer), so the reused timer exists
		for _, mode := range []string{"user", "peer", "peer+user", "user2"} {
			for _, pre := range []string{"timed-read-data", "timed-read-timeout"} {
				mode, pre := mode, pre
				vs = append(vs, Variant{
					Name: fmt.Sprintf("kind=client,close=%s,input=0,output=0,history=%s", mode, pre),
					Make: func() *vsched.Scenario { return closedScenario("client", mode, 0, 0, pre) },
				})
			}
		}
		return vs
	})
}

type callRes struct {
	name     string
	lenPre   int
	data     []byte
	err      error
	panicked string
	done     bool
}

func closedScenario(kind, mode string, in, out int, pre string) *vsched.Scenario {
	var conn netpoll.Connection
	var a, b int
	var results []*callRes
	calls := apiCalls()
	sc := &vsched.Scenario{Name: "closed.api", Horizon: 6000}
	sc.Body = func() {
		results = nil
		netpoll.VerifReset(1)
		a, b = vsyscall.HSocketpair(0)
		vsyscall.Adopt(a)
		if kind == "client" {
			c, err := netpoll.VerifFDConn(a, "unix")
			if err != nil {
				panic(err)
			}
			conn = c
		} else {
			srv := netpoll.VerifNewServer(func(ctx context.Context, c netpoll.Connection) error {
				r := c.Reader()
				r.Next(r.Len())
				r.Release()
				return nil
			}, netpoll.WithOnPrepare(func(c netpoll.Connection) context.Context { conn = c; return context.Background() }))
			srv.Accept(a, "unix")
		}
		c := conn
		c.AddCloseCallback(func(netpoll.Connection) error { vsched.LogEvent("closecb"); return nil })
		switch pre {
		case "timed-read-data":
			c.SetReadTimeout(100 * time.Millisecond)
			vsched.Go("early-peer", func() { vsyscall.HWrite(b, []byte{'e'}) })
			if _, err := c.Reader().Next(1); err == nil {
				c.Reader().Release()
			} else {
				// the timer won: the byte may arrive later; consume it so that the input is empty again
				vsched.WaitCond("early-byte", func() bool { return netpoll.VerifState(c).InputLen == 1 })
				c.Reader().Next(1)
				c.Reader().Release()
			}
			vsched.Settle("after-early-read")
		case "timed-read-timeout":
			c.SetReadTimeout(100 * time.Millisecond)
			c.Reader().Next(1) // nothing arrives: ends with ErrReadTimeout
			vsched.Settle("after-early-read")
		}
		if in > 0 {
			vsyscall.HWrite(b, stream(0, in))
			vsched.WaitCond("input-buffered", func() bool { return netpoll.VerifState(c).InputLen == in })
		}
		if out > 0 {
			p, _ := c.Writer().Malloc(out)
			copy(p, stream(100, out))
		}
		// close, then let every actor finish
		switch mode {
		case "user":
			c.Close()
		case "user2":
			vsched.Go("closer2", func() { c.Close() })
			c.Close()
		case "peer", "peer+user":
			vsyscall.HClose(b)
			vsched.WaitCond("hangup-seen", func() bool { return netpoll.VerifState(c).Closing != 0 })
			vsched.Settle("after-hangup")
			if mode == "peer+user" {
				c.Close()
			}
		case "detach":
			c.(interface{ Detach() error }).Detach()
			vsyscall.Disown(a)
		}
		vsched.Settle("after-close")
		vsched.LogEvent("closed")
		// one or two API calls on the closed connection (explored: which ones)
		n := 1 + vsched.Choose(2, "how-many-calls")
		for i := 0; i < n; i++ {
			k := vsched.Choose(len(calls), "which-call")
			r := &callRes{name: calls[k].name, lenPre: netpoll.VerifState(c).InputLen}
			results = append(results, r)
			vsched.LogEvent("call:" + r.name)
			func() {
				defer func() {
					if p := recover(); p != nil {
						if p == vsched.AbortSentinel {
							panic(p)
						}
						r.panicked = fmt.Sprint(p)
					}
				}()
				r.data, r.err = calls[k].fn(c)
			}()
			r.done = true
			vsched.Settle("after-call")
		}
	}
	sc.Outcome = func(ex *vsched.Exec) string {
		var o []string
		for _, r := range results {
			o = append(o, r.name+"="+errClass(r.err))
		}
		return strings.Join(o, ",")
	}
	sc.Check = func(ex *vsched.Exec) []vsched.Violation {
		vs := baseChecks("C12", ex, true)
		add := func(sig, msg string) { vs = append(vs, vsched.Violation{Sig: "C12 " + sig, Msg: msg}) }
		byName := map[string]apiCall{}
		for _, c := range calls {
			byName[c.name] = c
		}
		for i, r := range results {
			ctx := fmt.Sprintf("kind=%s close=%s input=%d output=%d call#%d %s", kind, mode, in, out, i, r.name)
			if !r.done && r.panicked == "" {
				add("blocks call="+r.name+" close="+mode, ctx+": the call never returned ("+ex.EndMsg+")")
				continue
			}
			if r.panicked != "" {
				add("panic call="+r.name+" close="+mode, ctx+": panicked: "+r.panicked)
				continue
			}
			ac := byName[r.name]
			userClosed := mode == "user" || mode == "user2" || mode == "peer+user" || mode == "detach"
			for j := 0; j < i; j++ {
				if results[j].name == "Close" {
					userClosed = true
				}
			}
			if ac.writer {
				if r.err == nil || !errors.Is(r.err, netpoll.ErrConnClosed) {
					add("writer-not-connclosed call="+r.name+" close="+mode, fmt.Sprintf("%s: returned %v, want an error matching ErrConnClosed", ctx, r.err))
				}
			}
			if ac.need > 0 {
				if ac.need <= r.lenPre {
					// still buffered: must be readable (first call only: a second call sees what the first left)
					if i == 0 && r.err != nil {
						add("buffered-not-readable call="+r.name+" close="+mode, fmt.Sprintf("%s: %d bytes were buffered but the call failed with %v", ctx, r.lenPre, r.err))
					}
					if i == 0 && r.err == nil && len(r.data) > 0 && string(r.data) != string(stream(0, len(r.data))) {
						add("buffered-bytes-wrong call="+r.name, ctx+": returned bytes differ from what was buffered")
					}
				} else {
					if r.err == nil {
						add("read-beyond-buffer-succeeded call="+r.name+" close="+mode, fmt.Sprintf("%s: needs %d bytes, %d buffered, returned nil", ctx, ac.need, r.lenPre))
					} else if !errors.Is(r.err, netpoll.ErrConnClosed) {
						add("reader-not-connclosed call="+r.name+" close="+mode, fmt.Sprintf("%s: returned %v, want an error matching ErrConnClosed", ctx, r.err))
					} else if !userClosed && !errors.Is(r.err, netpoll.ErrEOF) {
						add("reader-not-eof call="+r.name+" close="+mode, fmt.Sprintf("%s: peer closed, returned %v, want an error matching both ErrEOF and ErrConnClosed", ctx, r.err))
					}
				}
			}
			if r.name == "Close" && r.err != nil {
				add("close-not-idempotent close="+mode, fmt.Sprintf("%s: returned %v", ctx, r.err))
			}
		}
		if ex.End == vsched.EndDeadlock && len(results) == 0 {
			add("setup-blocked close="+mode, "closing never completed: "+ex.EndMsg)
		}
		l := logIdx{ex}
		if n := l.count("closecb"); n > 1 {
			add("closecb-twice close="+mode, "close callback ran more than once")
		}
		return vs
	}
	return sc
}
