// Package vruntime mirrors the parts of runtime that netpoll uses.
package vruntime

import (
	"runtime"

	"verif/engine/vsched"
)

const GOOS = runtime.GOOS
const GOARCH = runtime.GOARCH

func Gosched() { vsched.Yield() }

func GOMAXPROCS(n int) int {
	if vsched.Active() {
		return 1
	}
	return runtime.GOMAXPROCS(n)
}

func SetFinalizer(obj interface{}, finalizer interface{}) {
	if vsched.Active() {
		return
	}
	runtime.SetFinalizer(obj, finalizer)
}
