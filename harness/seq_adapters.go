package main

// SEQ-ENUM `adapters` (C16): every scripted io.Reader / io.Writer behaviour x
// every sequence of Reader / Writer calls on NewReader / NewWriter /
// NewIOReader / NewIOWriter, compared with a byte-stream reference.

import (
	"bytes"
	"errors"
	"fmt"
	"io"
	"sort"
	"time"

	"github.com/cloudwego/netpoll"
	"verif/engine/alloc"
	"verif/engine/vsched"
)

var errSrc = errors.New("scripted source error")

type srcAns struct {
	n   int // bytes to deliver (capped by len(p)); -1 = fill the request
	err error
}

func (a srcAns) String() string {
	e := "nil"
	if a.err == io.EOF {
		e = "EOF"
	} else if a.err != nil {
		e = "err"
	}
	if a.n < 0 {
		return "full/" + e
	}
	return fmt.Sprintf("%d/%s", a.n, e)
}

var srcAlphabet = []srcAns{{-1, nil}, {0, nil}, {1, nil}, {4095, nil}, {3, io.EOF}, {0, io.EOF}, {3, errSrc}, {0, errSrc}}

type scriptReader struct {
	script   []srcAns
	pos      int
	produced []byte
	ctr      int
	calls    int
	lastErr  error
}

func (s *scriptReader) Read(p []byte) (int, error) {
	s.calls++
	a := srcAns{0, io.EOF}
	if s.pos < len(s.script) {
		a = s.script[s.pos]
		s.pos++
	}
	n := a.n
	if n < 0 || n > len(p) {
		n = len(p)
	}
	for i := 0; i < n; i++ {
		p[i] = sbyte(s.ctr)
		s.ctr++
	}
	s.produced = append(s.produced, p[:n]...)
	if a.err != nil {
		s.lastErr = a.err
	}
	return n, a.err
}

type rdOp struct {
	K string
	N int
}

func (o rdOp) String() string { return fmt.Sprintf("%s(%d)", o.K, o.N) }

var rdOps = []rdOp{{"Next", 1}, {"Next", 5}, {"Next", 4097}, {"Peek", 5}, {"Skip", 5}, {"ReadBinary", 5}, {"ReadString", 2}, {"ReadByte", 0}, {"Slice", 5}, {"Release", 0}, {"Until", 0}, {"Drain", 0}}

type adRun struct {
	viol []vsched.Violation
}

func (r *adRun) fail(sig, msg string) {
	r.viol = append(r.viol, vsched.Violation{Sig: "C16 " + sig, Msg: msg})
}

// runReader executes one (script, ops) case on NewReader and checks the stream oracle.
func runReader(script []srcAns, ops []rdOp) *adRun {
	run := &adRun{}
	src := &scriptReader{script: script}
	rd := netpoll.NewReader(src)
	var got []byte // bytes obtained by consuming reads, in order
	desc := fmt.Sprintf("source=%v ops=%v", script, ops)
	consume := func(p []byte, err error, n int, what string) {
		if err != nil {
			if len(p) != 0 {
				run.fail("failed-read-returned-data op="+what, desc+": "+what+" returned data together with an error")
			}
			return
		}
		if len(p) != n {
			run.fail("short-result op="+what, fmt.Sprintf("%s: %s returned %d bytes for n=%d without error", desc, what, len(p), n))
		}
		got = append(got, p...)
	}
	checkErr := func(err error, what string) {
		if err == nil {
			return
		}
		// an error may only come from the source (io.EOF surfaced as ErrEOF)
		if src.lastErr == nil {
			run.fail("spurious-error op="+what, fmt.Sprintf("%s: %s failed with %v although the source never returned an error", desc, what, err))
			return
		}
		if src.lastErr == io.EOF && !errors.Is(err, netpoll.ErrEOF) && !isNotEnough(err) {
			run.fail("eof-not-surfaced op="+what, fmt.Sprintf("%s: source returned io.EOF but %s failed with %v (want ErrEOF)", desc, what, err))
		}
		if src.lastErr == errSrc && !errors.Is(err, errSrc) && !errors.Is(err, netpoll.ErrEOF) && !isNotEnough(err) {
			run.fail("error-changed op="+what, fmt.Sprintf("%s: source returned its own error but %s failed with %v", desc, what, err))
		}
	}
	for _, o := range ops {
		before := len(got)
		switch o.K {
		case "Next":
			p, err := rd.Next(o.N)
			checkErr(err, "Next")
			consume(p, err, o.N, "Next")
		case "Peek":
			p, err := rd.Peek(o.N)
			checkErr(err, "Peek")
			if err == nil {
				// must equal the next bytes of the stream without consuming
				want := src.produced[len(got):]
				if len(p) != o.N || len(want) < o.N || !bytes.Equal(p, want[:o.N]) {
					run.fail("bytes op=Peek", desc+": Peek returned bytes that are not the next bytes of the source stream")
				}
			}
		case "Skip":
			err := rd.Skip(o.N)
			checkErr(err, "Skip")
			if err == nil {
				want := src.produced[len(got):]
				if len(want) < o.N {
					run.fail("skip-beyond op=Skip", desc+": Skip succeeded beyond the produced stream")
				} else {
					got = append(got, want[:o.N]...)
				}
			}
		case "ReadBinary":
			p, err := rd.ReadBinary(o.N)
			checkErr(err, "ReadBinary")
			consume(p, err, o.N, "ReadBinary")
		case "ReadString":
			s, err := rd.ReadString(o.N)
			checkErr(err, "ReadString")
			consume([]byte(s), err, o.N, "ReadString")
		case "ReadByte":
			c, err := rd.ReadByte()
			checkErr(err, "ReadByte")
			if err == nil {
				got = append(got, c)
			}
		case "Slice":
			s, err := rd.Slice(o.N)
			checkErr(err, "Slice")
			if err == nil {
				p, e2 := s.Next(o.N)
				consume(p, e2, o.N, "Slice.Next")
				s.Release()
			}
		case "Release":
			rd.Release()
		case "Until":
			// only searches what is buffered; exercised, result checked when it succeeds
			p, err := rd.Until('\n')
			if err == nil {
				got = append(got, p...)
			}
		case "Drain":
			p, err := rd.Next(rd.Len())
			consume(p, err, rd.Len()+len(p), "Drain")
		}
		if len(got) > len(src.produced) || !bytes.Equal(got, src.produced[:len(got)]) {
			run.fail("stream-order op="+o.K, fmt.Sprintf("%s: after %s the bytes obtained (%d) are not a prefix of what the source produced (%d; first diff at %d)", desc, o, len(got), len(src.produced), firstDiff(got, src.produced)))
			return run
		}
		_ = before
	}
	// final drain: everything the source produced must be readable exactly once
	for rd.Len() > 0 {
		p, err := rd.Next(rd.Len())
		if err != nil {
			break
		}
		got = append(got, p...)
	}
	if !bytes.Equal(got, src.produced) {
		run.fail("stream-loss", fmt.Sprintf("%s: after draining, %d bytes were obtained but the source produced %d (first diff at %d)", desc, len(got), len(src.produced), firstDiff(got, src.produced)))
	}
	return run
}

func isNotEnough(err error) bool {
	return err != nil && bytes.Contains([]byte(err.Error()), []byte("not enough"))
}

// ---- writer side ----

type sinkAns struct {
	frac int // 0: accept all; 1: one byte; 2: half; 3: all but one; 4: nothing
	err  error
}

func (a sinkAns) String() string {
	e := "nil"
	if a.err != nil {
		e = "err"
	}
	return fmt.Sprintf("%s/%s", []string{"all", "1", "half", "all-1", "0"}[a.frac], e)
}

var sinkAlphabet = []sinkAns{{0, nil}, {1, nil}, {2, nil}, {3, errSrc}, {4, nil}, {4, errSrc}, {2, errSrc}}

type scriptWriter struct {
	script []sinkAns
	pos    int
	sunk   []byte
	calls  int
	last   sinkAns
}

func (s *scriptWriter) Write(p []byte) (int, error) {
	s.calls++
	a := sinkAns{0, nil}
	if s.pos < len(s.script) {
		a = s.script[s.pos]
		s.pos++
	}
	s.last = a
	n := len(p)
	switch a.frac {
	case 1:
		if n > 1 {
			n = 1
		}
	case 2:
		n = n / 2
	case 3:
		if n > 0 {
			n--
		}
	case 4:
		n = 0
	}
	s.sunk = append(s.sunk, p[:n]...)
	return n, a.err
}

type wrOp struct {
	K string
	N int
}

func (o wrOp) String() string { return fmt.Sprintf("%s(%d)", o.K, o.N) }

var wrOps = []wrOp{{"Malloc", 1}, {"Malloc", 9}, {"Malloc", 4097}, {"WriteBinary", 3}, {"WriteBinary", 4097}, {"WriteByte", 0}, {"MallocAck", 0}, {"Flush", 0}}

func runWriter(script []sinkAns, ops []wrOp) *adRun {
	run := &adRun{}
	sink := &scriptWriter{script: script}
	w := netpoll.NewWriter(sink)
	var submitted, pending []byte
	ctr := 0
	gen := func(n int) []byte {
		p := make([]byte, n)
		for i := range p {
			p[i] = sbyte(ctr)
			ctr++
		}
		return p
	}
	desc := fmt.Sprintf("sink=%v ops=%v", script, ops)
	for _, o := range ops {
		switch o.K {
		case "Malloc":
			p, _ := w.Malloc(o.N)
			g := gen(len(p))
			copy(p, g)
			pending = append(pending, g...)
		case "WriteBinary":
			g := gen(o.N)
			w.WriteBinary(g)
			pending = append(pending, g...)
		case "WriteByte":
			g := gen(1)
			w.WriteByte(g[0])
			pending = append(pending, g...)
		case "MallocAck":
			k := len(pending) / 2
			w.MallocAck(k)
			pending = pending[:k]
		case "Flush":
			before := sink.calls
			err := w.Flush()
			submitted = append(submitted, pending...)
			pending = nil
			if sink.calls > before {
				a := sink.last
				if (a.err != nil) != (err != nil) {
					run.fail("flush-error", fmt.Sprintf("%s: Flush returned %v but the sink answered %v", desc, err, a))
				}
			}
		}
		if len(sink.sunk) > len(submitted) || !bytes.Equal(sink.sunk, submitted[:len(sink.sunk)]) {
			run.fail("sink-order op="+o.K, fmt.Sprintf("%s: after %s the sink holds %d bytes that are not a prefix of the %d flushed bytes (first diff at %d)", desc, o, len(sink.sunk), len(submitted), firstDiff(sink.sunk, submitted)))
			return run
		}
	}
	// drain: the sink accepts everything from now on; repeated Flush must deliver the rest exactly once
	submitted = append(submitted, pending...)
	sink.script = nil
	for i := 0; i < 4; i++ {
		w.Flush()
	}
	if !bytes.Equal(sink.sunk, submitted) {
		run.fail("sink-loss", fmt.Sprintf("%s: after repeated Flush the sink holds %d bytes, %d were flushed (first diff at %d)", desc, len(sink.sunk), len(submitted), firstDiff(sink.sunk, submitted)))
	}
	return run
}

// ---- NewIOReader / NewIOWriter over a LinkBuffer ----

func runIO(ops []rdOp) *adRun {
	run := &adRun{}
	lb := netpoll.NewLinkBuffer()
	ior := netpoll.NewIOReader(lb)
	iow := netpoll.NewIOWriter(lb)
	var model []byte
	ctr := 0
	desc := fmt.Sprintf("ops=%v", ops)
	for _, o := range ops {
		switch o.K {
		case "Write":
			p := make([]byte, o.N)
			for i := range p {
				p[i] = sbyte(ctr)
				ctr++
			}
			n, err := iow.Write(p)
			if err != nil || n != o.N {
				run.fail("iowriter-result", fmt.Sprintf("%s: Write(%d) = %d, %v", desc, o.N, n, err))
			}
			model = append(model, p...)
			// io.Writer: "Write must not retain p" - the caller reuses its slice at once
			for i := range p {
				p[i] = 0xEE
			}
		case "Read":
			p := make([]byte, o.N)
			n, err := ior.Read(p)
			want := o.N
			if want > len(model) {
				want = len(model)
			}
			if o.N > 0 && len(model) == 0 {
				if err != io.EOF || n != 0 {
					run.fail("ioreader-eof", fmt.Sprintf("%s: Read on empty buffer = %d, %v (want 0, io.EOF)", desc, n, err))
				}
			} else if n != want || err != nil || !bytes.Equal(p[:n], model[:want]) {
				run.fail("ioreader-bytes", fmt.Sprintf("%s: Read(%d) = %d, %v; reference %d bytes", desc, o.N, n, err, want))
			}
			if n <= len(model) {
				model = model[n:]
			}
		}
		if lb.Len() != len(model) {
			run.fail("io-len", fmt.Sprintf("%s: buffer Len()=%d, reference %d", desc, lb.Len(), len(model)))
			return run
		}
	}
	return run
}

var ioOps = []rdOp{{"Write", 1}, {"Write", 9}, {"Write", 4097}, {"Read", 0}, {"Read", 1}, {"Read", 5}, {"Read", 4096}, {"Read", 5000}}

// ---- enumeration ----

func adaptersRun(kind string, firstAns, scriptLen, depth int, opt vsched.Options) *vsched.Report {
	rep := &vsched.Report{Scenario: "adapters", Params: kind, Ends: map[string]int64{}, Outcomes: map[string]int64{}, PBDone: -1}
	start := time.Now()
	alloc.Disable()
	found := map[string]*vsched.Found{}
	record := func(r *adRun, trace []string) {
		for _, v := range r.viol {
			f := found[v.Sig]
			if f == nil {
				f = &vsched.Found{Sig: v.Sig, Msg: v.Msg, Trace: trace}
				found[v.Sig] = f
			}
			f.Count++
		}
		if len(r.viol) == 0 {
			rep.Outcomes["ok"]++
		} else {
			rep.Outcomes["violating"]++
		}
	}
	capped := false
	check := func() bool {
		if !opt.Deadline.IsZero() && rep.Execs%1024 == 0 && time.Now().After(opt.Deadline) {
			capped = true
		}
		return capped
	}
	switch kind {
	case "reader":
		var script []srcAns
		var ops []rdOp
		var recS func(int)
		var recO func(int)
		recO = func(d int) {
			if capped {
				return
			}
			if d > 0 {
				r := runReader(script, ops)
				rep.Execs++
				rep.Steps += int64(len(ops))
				record(r, []string{fmt.Sprint("source script: ", script), fmt.Sprint("reader calls: ", ops)})
				if len(rep.Samples) < 2 && rep.Execs%501 == 0 {
					rep.Samples = append(rep.Samples, []string{fmt.Sprint(script), fmt.Sprint(ops)})
				}
				check()
			}
			if d == depth {
				return
			}
			for _, o := range rdOps {
				ops = append(ops, o)
				recO(d + 1)
				ops = ops[:len(ops)-1]
			}
		}
		recS = func(l int) {
			if l == scriptLen {
				recO(0)
				return
			}
			for i, a := range srcAlphabet {
				if l == 0 && i != firstAns {
					continue
				}
				script = append(script, a)
				recS(l + 1)
				script = script[:len(script)-1]
			}
		}
		recS(0)
	case "writer":
		var script []sinkAns
		var ops []wrOp
		var recS func(int)
		var recO func(int)
		recO = func(d int) {
			if capped {
				return
			}
			if d > 0 {
				r := runWriter(script, ops)
				rep.Execs++
				rep.Steps += int64(len(ops))
				record(r, []string{fmt.Sprint("sink script: ", script), fmt.Sprint("writer calls: ", ops)})
				if len(rep.Samples) < 2 && rep.Execs%501 == 0 {
					rep.Samples = append(rep.Samples, []string{fmt.Sprint(script), fmt.Sprint(ops)})
				}
				check()
			}
			if d == depth+1 {
				return
			}
			for _, o := range wrOps {
				ops = append(ops, o)
				recO(d + 1)
				ops = ops[:len(ops)-1]
			}
		}
		recS = func(l int) {
			if l == scriptLen {
				recO(0)
				return
			}
			for i, a := range sinkAlphabet {
				if l == 0 && i != firstAns {
					continue
				}
				script = append(script, a)
				recS(l + 1)
				script = script[:len(script)-1]
			}
		}
		recS(0)
	case "io":
		var ops []rdOp
		var recO func(int)
		recO = func(d int) {
			if capped {
				return
			}
			if d > 0 {
				r := runIO(ops)
				rep.Execs++
				rep.Steps += int64(len(ops))
				record(r, []string{fmt.Sprint("calls: ", ops)})
				if len(rep.Samples) < 2 && rep.Execs%501 == 0 {
					rep.Samples = append(rep.Samples, []string{fmt.Sprint(ops)})
				}
				check()
			}
			if d == depth+2 {
				return
			}
			for i, o := range ioOps {
				if d == 0 && i != firstAns {
					continue
				}
				ops = append(ops, o)
				recO(d + 1)
				ops = ops[:len(ops)-1]
			}
		}
		recO(0)
	}
	keys := make([]string, 0, len(found))
	for k := range found {
		keys = append(keys, k)
	}
	sort.Strings(keys)
	for _, k := range keys {
		rep.Found = append(rep.Found, found[k])
	}
	rep.States = rep.Execs
	rep.Exhaustive = !capped
	if capped {
		rep.CapHit = "deadline"
	} else {
		rep.PBDone = depth
	}
	rep.DBDone = scriptLen
	if len(rep.Samples) == 0 {
		rep.Samples = append(rep.Samples, []string{"(single case shard)"})
	}
	rep.WallS = time.Since(start).Seconds()
	return rep
}

func init() {
	register("adapters", func(tier string) []Variant {
		var vs []Variant
		sl, depth := 3, 3
		if tier == "thorough" {
			sl, depth = 4, 4
		}
		for i := range srcAlphabet {
			i := i
			vs = append(vs, Variant{Name: fmt.Sprintf("reader:first=%s:script=%d:depth=%d", srcAlphabet[i], sl, depth), Run: func(opt vsched.Options) *vsched.Report {
				return adaptersRun("reader", i, sl, depth, opt)
			}})
		}
		for i := range sinkAlphabet {
			i := i
			vs = append(vs, Variant{Name: fmt.Sprintf("writer:first=%s:script=%d:depth=%d", sinkAlphabet[i], sl, depth+1), Run: func(opt vsched.Options) *vsched.Report {
				return adaptersRun("writer", i, sl, depth, opt)
			}})
		}
		for i := range ioOps {
			i := i
			vs = append(vs, Variant{Name: fmt.Sprintf("io:first=%s:depth=%d", ioOps[i], depth+2), Run: func(opt vsched.Options) *vsched.Report {
				return adaptersRun("io", i, 0, depth, opt)
			}})
		}
		return vs
	})
}
