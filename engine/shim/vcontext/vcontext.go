// Package vcontext mirrors context.WithTimeout/WithDeadline/WithCancel on the virtual clock.
package vcontext

import (
	"context"
	"sync"
	"time"

	"verif/engine/shim/vtime"
	"verif/engine/vsched"
)

type vctx struct {
	context.Context // parent
	mu              sync.Mutex
	done            chan struct{}
	err             error
	deadline        time.Time
	hasDl           bool
	ex              *vsched.Exec
	tm              *vtime.Timer
}

func (c *vctx) Deadline() (time.Time, bool) {
	if c.hasDl {
		return c.deadline, true
	}
	return c.Context.Deadline()
}

func (c *vctx) Done() <-chan struct{} { return c.done }

//go:norace
func (c *vctx) Err() error {
	if vsched.Active() {
		vsched.Point(vsched.KRead, vsched.ChanID(c.done), false, "ctx.Err")
	}
	c.mu.Lock()
	defer c.mu.Unlock()
	return c.err
}

func (c *vctx) Value(key interface{}) interface{} { return c.Context.Value(key) }

// cancel may run in scheduler context (timer fire) or in a thread (CancelFunc).
//
//go:norace
func (c *vctx) cancel(err error, fromThread bool) {
	c.mu.Lock()
	if c.err != nil {
		c.mu.Unlock()
		return
	}
	c.err = err
	c.mu.Unlock()
	if fromThread {
		vsched.CloseNote(c.done)
	} else {
		c.ex.MarkClosed(c.done)
	}
	close(c.done)
}

func WithCancel(parent context.Context) (context.Context, context.CancelFunc) {
	ex := vsched.Cur()
	if ex == nil {
		return context.WithCancel(parent)
	}
	c := &vctx{Context: parent, done: make(chan struct{}), ex: ex}
	return c, func() { c.cancel(context.Canceled, true) }
}

func WithTimeout(parent context.Context, d time.Duration) (context.Context, context.CancelFunc) {
	ex := vsched.Cur()
	if ex == nil {
		return context.WithTimeout(parent, d)
	}
	return WithDeadline(parent, vtime.Now().Add(d))
}

func WithDeadline(parent context.Context, dl time.Time) (context.Context, context.CancelFunc) {
	ex := vsched.Cur()
	if ex == nil {
		return context.WithDeadline(parent, dl)
	}
	c := &vctx{Context: parent, done: make(chan struct{}), ex: ex, deadline: dl, hasDl: true}
	d := dl.Sub(vtime.Now())
	c.tm = vtime.AfterFuncSched(d, func() { c.cancel(context.DeadlineExceeded, false) })
	return c, func() {
		c.tm.Stop()
		c.cancel(context.Canceled, true)
	}
}
