module verif/engine

go 1.21
