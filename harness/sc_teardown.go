package main

import (
	"context"
	"fmt"
	"strings"

	"github.com/cloudwego/netpoll"
	"verif/engine/shim/vsyscall"
	"verif/engine/vsched"
)

// ---- C05: teardown happens exactly once (conn.teardown) ----

func init() {
	register("conn.teardown", func(tier string) []Variant {
		var vs []Variant
		for _, kind := range []string{"server", "server+onconnect", "client"} {
			for _, h := range []string{"read", "panic", "close"} {
				if kind == "client" && h != "read" {
					continue
				}
				for _, peer := range []string{"none", "close", "send+close", "send"} {
					for _, closers := range []string{"0", "1", "2", "detach"} {
						if closers == "0" && (peer == "none" || peer == "send") && h != "close" {
							continue // nothing ever closes
						}
						if closers == "detach" && (h != "read" || peer == "send") {
							continue
						}
						kind, h, peer, closers := kind, h, peer, closers
						vs = append(vs, Variant{
							Name: fmt.Sprintf("kind=%s,handler=%s,peer=%s,closers=%s", kind, h, peer, closers),
							Make: func() *vsched.Scenario { return teardownScenario(kind, h, peer, closers) },
						})
					}
				}
			}
		}
		return vs
	})
}

func teardownScenario(kind, handler, peer, closers string) *vsched.Scenario {
	var conn netpoll.Connection
	var a, b int
	var poll netpoll.Poll
	var actives []bool
	sc := &vsched.Scenario{Name: "conn.teardown", Horizon: 6000}
	sc.Body = func() {
		actives = nil
		netpoll.VerifReset(1)
		a, b = vsyscall.HSocketpair(0)
		vsyscall.Adopt(a)
		addCbs := func(c netpoll.Connection) {
			for i := 1; i <= 3; i++ {
				i := i
				c.AddCloseCallback(func(netpoll.Connection) error { vsched.LogEvent(fmt.Sprintf("closecb:%d", i)); return nil })
			}
		}
		onReq := func(ctx context.Context, c netpoll.Connection) error {
			vsched.LogEvent("request:start")
			defer vsched.LogEvent("request:end")
			switch handler {
			case "panic":
				panic(&vsched.HandlerPanic{Msg: "handler"})
			case "close":
				c.Close()
			default:
				r := c.Reader()
				r.Next(r.Len())
				r.Release()
			}
			return nil
		}
		if kind == "client" {
			c, err := netpoll.VerifFDConn(a, "unix")
			if err != nil {
				panic(err)
			}
			conn = c
			addCbs(c)
		} else {
			opts := []netpoll.Option{netpoll.WithOnPrepare(func(c netpoll.Connection) context.Context {
				conn = c
				addCbs(c)
				return context.Background()
			})}
			if kind == "server+onconnect" {
				opts = append(opts, netpoll.WithOnConnect(func(ctx context.Context, c netpoll.Connection) context.Context {
					vsched.LogEvent("connect:start")
					steps(c, 1)
					vsched.LogEvent("connect:end")
					return ctx
				}))
			}
			srv := netpoll.VerifNewServer(onReq, opts...)
			srv.Accept(a, "unix")
		}
		_, _, polls := netpoll.VerifManagerState()
		poll = polls[0]
		c := conn
		if peer != "none" {
			vsched.Go("peer", func() {
				for _, act := range strings.Split(peer, "+") {
					switch act {
					case "send":
						vsyscall.HWrite(b, stream(0, 5))
					case "close":
						vsyscall.HClose(b)
						vsched.LogEvent("peer:closed")
					}
				}
			})
		}
		nClosers := 0
		switch closers {
		case "1":
			nClosers = 1
		case "2":
			nClosers = 2
		}
		for i := 0; i < nClosers; i++ {
			i := i
			vsched.Go(fmt.Sprintf("closer%d", i), func() {
				vsched.LogEvent(fmt.Sprintf("close-call:%d", i))
				c.Close()
				vsched.LogEvent(fmt.Sprintf("close-ret:%d", i))
			})
		}
		if closers == "detach" {
			vsched.Go("detacher", func() {
				vsched.LogEvent("detach-call")
				c.(interface{ Detach() error }).Detach()
				vsched.LogEvent("detach-ret")
			})
		}
		if closers == "1" && handler == "read" && peer != "send" {
			// IsActive monotonicity is observed in the variants with one closer only (keeps the others small)
			vsched.Go("observer", func() {
				for i := 0; i < 3; i++ {
					actives = append(actives, c.IsActive())
				}
			})
		}
	}
	sc.Outcome = func(ex *vsched.Exec) string {
		var o []string
		for _, e := range ex.Log {
			o = append(o, fmt.Sprintf("%s@%s", e.Msg, threadRole(ex, e.Thread)))
		}
		return strings.Join(o, ";")
	}
	sc.Check = func(ex *vsched.Exec) []vsched.Violation {
		vs := baseChecks("C05", ex, false)
		if ex.End != vsched.EndQuiescent {
			return vs
		}
		l := logIdx{ex}
		add := func(sig, msg string) { vs = append(vs, vsched.Violation{Sig: "C05 " + sig, Msg: msg}) }
		st := netpoll.VerifState(conn)
		userCalled := l.countPrefix("close-call:") > 0 || l.count("detach-call") > 0 || handler == "close" && l.count("request:start") > 0
		hasCallbacks := kind != "client"
		// close callbacks: at most once each, reverse order, exactly once when due
		for i := 1; i <= 3; i++ {
			n := l.count(fmt.Sprintf("closecb:%d", i))
			if n > 1 {
				add("closecb-twice", fmt.Sprintf("close callback %d ran %d times", i, n))
			}
			if st.Closing != 0 && (userCalled || hasCallbacks) && n == 0 {
				add("closecb-never", fmt.Sprintf("connection closed (closing=%d) but close callback %d never ran", st.Closing, i))
			}
			if st.Closing == 0 && n > 0 {
				add("closecb-while-active", "close callback ran although the connection is still active")
			}
		}
		c3, c2, c1 := l.first("closecb:3"), l.first("closecb:2"), l.first("closecb:1")
		if c3 >= 0 && c2 >= 0 && c1 >= 0 && !(c3 < c2 && c2 < c1) {
			add("closecb-order", "close callbacks did not run in reverse order of registration")
		}
		// never while the request handler is executing
		depth := 0
		for _, e := range ex.Log {
			switch {
			case e.Msg == "request:start":
				depth++
				if depth > 1 {
					add("handler-overlap", "two OnRequest invocations overlap")
				}
			case e.Msg == "request:end":
				depth--
			case strings.HasPrefix(e.Msg, "closecb:") && depth > 0:
				add("closecb-during-handler", "a close callback ran while OnRequest was executing")
			}
		}
		// descriptor closed exactly once (not at all when detached)
		led := vsyscall.L()
		closes := 0
		for _, r := range led.Recs {
			if r.Fd == a && strings.Contains(r.Kind, "adopted") {
				closes = r.Closes
				if closes < 0 {
					closes = -1 - closes
				}
			}
		}
		detached := l.count("detach-call") > 0
		if st.Closing != 0 && (userCalled || hasCallbacks) {
			lo, hi := 1, 1
			if detached {
				lo, hi = 0, 0
				if peer != "none" {
					hi = 1 // the peer's hang-up may win the race: then the connection is closed, not detached
				}
			}
			if closes < lo || closes > hi {
				add(fmt.Sprintf("fd-closes=%d want=%d..%d", closes, lo, hi), fmt.Sprintf("descriptor closed %d times by netpoll (want %d..%d; detached=%v)", closes, lo, hi, detached))
			}
			// deregistered from the poller (matters when the descriptor stays open)
			reg := 0
			for _, c := range led.Ctl {
				if c.Fd == a && c.Err == 0 {
					switch c.Op {
					case 1:
						reg++
					case 2:
						reg--
					}
				}
			}
			if detached && closes == 0 && reg > 0 {
				add("detached-but-registered", "Detach returned, the descriptor is open, but it is still registered with the poller")
			}
			// the poller registration is released exactly once (an explicit EPOLL_CTL_DEL; closing the
			// descriptor would drop it silently, but then the slot is freed while events may still arrive)
			dels := 0
			for _, c := range led.Ctl {
				if c.Fd == a && c.Op == 2 && c.Err == 0 {
					dels++
				}
			}
			if l.firstPrefix("closecb:") >= 0 && dels != 1 {
				add(fmt.Sprintf("registration-released=%d", dels), fmt.Sprintf("the connection was torn down but its poller registration was explicitly released %d times (want exactly once)", dels))
			}
		}
		// poller slot released exactly once
		free, alloc, _ := netpoll.VerifOpCacheDetail(poll)
		seen := map[int32]int{}
		for _, i := range free {
			seen[i]++
		}
		for _, i := range alloc {
			seen[i]++
		}
		for idx, n := range seen {
			if n > 1 {
				add("slot-freed-twice", fmt.Sprintf("poller slot %d is on the free/allocation lists %d times", idx, n))
				break
			}
		}
		if st.Closing != 0 && (userCalled || hasCallbacks) && seen[st.OpIndex] == 0 && l.firstPrefix("closecb:") >= 0 {
			add("slot-not-freed", "connection torn down but its poller slot was never released")
		}
		// IsActive monotone
		for i := 1; i < len(actives); i++ {
			if actives[i] && !actives[i-1] {
				add("isactive-resurrected", "IsActive returned true after it had returned false")
			}
		}
		return vs
	}
	return sc
}
