// Package vsync mirrors the parts of sync that netpoll uses.
package vsync

import (
	"sync"
	"unsafe"

	"verif/engine/vsched"
)

type (
	Once      = sync.Once
	WaitGroup = sync.WaitGroup
	Locker    = sync.Locker
	Cond      = sync.Cond
)

// Mutex: enabled iff free; the real mutex is taken too so that the race
// detector sees the program's own happens-before edges.
type Mutex struct {
	mu   sync.Mutex
	held bool
}

//go:norace
func (m *Mutex) Lock() {
	if vsched.Active() {
		vsched.Block(vsched.KLock, uintptr(unsafe.Pointer(m)), "Mutex.Lock", m.free)
		m.held = true
	}
	m.mu.Lock()
}

//go:norace
func (m *Mutex) free() bool { return !m.held }

//go:norace
func (m *Mutex) TryLock() bool {
	if vsched.Active() {
		vsched.Point(vsched.KLock, uintptr(unsafe.Pointer(m)), true, "Mutex.TryLock")
		if m.held {
			return false
		}
		m.held = true
		m.mu.Lock()
		return true
	}
	return m.mu.TryLock()
}

//go:norace
func (m *Mutex) Unlock() {
	if vsched.Active() {
		vsched.Point(vsched.KUnlock, uintptr(unsafe.Pointer(m)), true, "Mutex.Unlock")
		m.held = false
	}
	m.mu.Unlock()
}

// RWMutex is modelled as an exclusive lock (netpoll only uses ForkLock's RLock, which is left alone).
type RWMutex struct{ Mutex }

func (m *RWMutex) RLock()   { m.Lock() }
func (m *RWMutex) RUnlock() { m.Unlock() }

// Pool: under the scheduler Get always calls New (no memory aliasing between
// executions or threads) and Put goes to a ledger that detects double Put.
type Pool struct {
	New  func() interface{}
	real sync.Pool
}

// PoolLedger is reset per execution by the harness; it records Put of pointer-like values.
type PoolLedger struct {
	put     []unsafe.Pointer
	Doubles []string
}

var Ledger *PoolLedger

//go:norace
func (p *Pool) Get() interface{} {
	if vsched.Active() || Ledger != nil {
		if p.New == nil {
			return nil
		}
		return p.New()
	}
	if p.real.New == nil {
		p.real.New = p.New
	}
	return p.real.Get()
}

//go:norace
func eface(v interface{}) unsafe.Pointer {
	return (*[2]unsafe.Pointer)(unsafe.Pointer(&v))[1]
}

//go:norace
func (p *Pool) Put(x interface{}) {
	if l := Ledger; l != nil {
		ptr := eface(x)
		for _, q := range l.put {
			if q == ptr {
				l.Doubles = append(l.Doubles, "double Put of pool object")
			}
		}
		l.put = append(l.put, ptr)
		return
	}
	if vsched.Active() {
		return
	}
	if p.real.New == nil {
		p.real.New = p.New
	}
	p.real.Put(x)
}

// Map mirrors sync.Map with deterministic (insertion-order) Range; every
// operation is a scheduler point on the map.
type Map struct {
	m    sync.Map
	mu   sync.Mutex
	keys []interface{}
}

//go:norace
func (m *Map) pt(w bool, what string) {
	if vsched.Active() {
		k := vsched.KRead
		if w {
			k = vsched.KWrite
		}
		vsched.Point(k, uintptr(unsafe.Pointer(m)), w, what)
	}
}

func (m *Map) Load(key interface{}) (interface{}, bool) {
	m.pt(false, "Map.Load")
	return m.m.Load(key)
}

func (m *Map) Store(key, value interface{}) {
	m.pt(true, "Map.Store")
	m.mu.Lock()
	if _, ok := m.m.Load(key); !ok {
		m.keys = append(m.keys, key)
	}
	m.m.Store(key, value)
	m.mu.Unlock()
}

func (m *Map) LoadOrStore(key, value interface{}) (interface{}, bool) {
	m.pt(true, "Map.LoadOrStore")
	m.mu.Lock()
	defer m.mu.Unlock()
	if v, ok := m.m.Load(key); ok {
		return v, true
	}
	m.keys = append(m.keys, key)
	m.m.Store(key, value)
	return value, false
}

func (m *Map) LoadAndDelete(key interface{}) (interface{}, bool) {
	m.pt(true, "Map.LoadAndDelete")
	m.mu.Lock()
	defer m.mu.Unlock()
	v, ok := m.m.Load(key)
	if ok {
		m.del(key)
	}
	return v, ok
}

func (m *Map) del(key interface{}) {
	m.m.Delete(key)
	for i, k := range m.keys {
		if k == key {
			m.keys = append(m.keys[:i:i], m.keys[i+1:]...)
			break
		}
	}
}

func (m *Map) Delete(key interface{}) {
	m.pt(true, "Map.Delete")
	m.mu.Lock()
	m.del(key)
	m.mu.Unlock()
}

// Range iterates over a snapshot of the keys in insertion order; like
// sync.Map.Range it tolerates concurrent mutation by f.
func (m *Map) Range(f func(key, value interface{}) bool) {
	m.pt(false, "Map.Range")
	m.mu.Lock()
	ks := append([]interface{}(nil), m.keys...)
	m.mu.Unlock()
	for _, k := range ks {
		m.pt(false, "Map.Range.next")
		v, ok := m.m.Load(k)
		if !ok {
			continue
		}
		if !f(k, v) {
			break
		}
	}
}

// RangePlain iterates without scheduler points (for oracles / predicates evaluated in scheduler context).
func (m *Map) RangePlain(f func(key, value interface{}) bool) {
	m.mu.Lock()
	ks := append([]interface{}(nil), m.keys...)
	m.mu.Unlock()
	for _, k := range ks {
		v, ok := m.m.Load(k)
		if !ok {
			continue
		}
		if !f(k, v) {
			break
		}
	}
}
