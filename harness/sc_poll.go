package main

import (
	"fmt"
	"strings"
	"syscall"

	"github.com/cloudwego/netpoll"
	"verif/engine/shim/vsyscall"
	"verif/engine/vsched"
)

// ---- C11: the poller dispatches each descriptor's events completely and in order (poll.live) ----

type stubOp struct {
	id       int
	fd, pfd  int
	op       *netpoll.FDOperator
	in       []byte // bytes delivered through Inputs/InputAck
	buf      []byte
	out      []byte // bytes still to send (Outputs)
	acked    int
	hups     int
	events   []string
	afterHup []string
}

func (s *stubOp) rec(ev string) {
	if s.hups > 0 && ev != "hup" {
		s.afterHup = append(s.afterHup, ev)
	}
	s.events = append(s.events, ev)
	vsched.LogEvent(fmt.Sprintf("op%d:%s", s.id, ev))
}

func newStub(id int, poll netpoll.Poll, fd, pfd int, bufSize int, out []byte) *stubOp {
	s := &stubOp{id: id, fd: fd, pfd: pfd, out: out}
	op := poll.Alloc()
	op.FD = fd
	op.Inputs = func(vs [][]byte) [][]byte {
		s.buf = make([]byte, bufSize)
		vs[0] = s.buf
		s.rec("inputs")
		return vs[:1]
	}
	op.InputAck = func(n int) error {
		if n > 0 {
			s.in = append(s.in, s.buf[:n]...)
		}
		s.rec(fmt.Sprintf("inputack:%d", n))
		return nil
	}
	op.Outputs = func(vs [][]byte) ([][]byte, bool) {
		s.rec("outputs")
		if len(s.out) == 0 {
			op.Control(netpoll.PollRW2R)
			return nil, false
		}
		vs[0] = s.out
		return vs[:1], false
	}
	op.OutputAck = func(n int) error {
		s.rec(fmt.Sprintf("outputack:%d", n))
		if n < 0 {
			n = 0
		}
		s.acked += n
		s.out = s.out[n:]
		if len(s.out) == 0 {
			op.Control(netpoll.PollRW2R)
		}
		return nil
	}
	op.OnHup = func(p netpoll.Poll) error {
		s.hups++
		s.rec("hup")
		return nil
	}
	s.op = op
	return s
}

func init() {
	register("poll.live", func(tier string) []Variant {
		var vs []Variant
		scripts := []string{"w3", "w3,c", "c", "w3,w2", "w3,w2,c", "s", "w3,s", "s,c", "w3,s,c", "w9,c", "w3,c|w2", "w3|c", "c|c"}
		for _, sc := range scripts {
			for _, bufSize := range []int{8, 2} {
				for _, extra := range []string{"-", "out", "trigger", "pollclose", "rderr", "late-ctl"} {
					if bufSize == 2 && extra != "-" {
						continue
					}
					if strings.Contains(sc, "|") && extra != "-" {
						continue
					}
					if extra == "rderr" && !(sc == "w3" || sc == "w3,w2" || sc == "w3,c" || sc == "w9,c") {
						continue
					}
					if extra == "late-ctl" && !(sc == "c" || sc == "w3,c" || sc == "w3,s") {
						continue
					}
					if extra == "out" && (strings.Contains(sc, "s") || strings.Contains(sc, "c")) {
						continue // the output path is driven against a peer that stays open
					}
					sc, bufSize, extra := sc, bufSize, extra
					vs = append(vs, Variant{
						Name: fmt.Sprintf("peer=%s,buf=%d,extra=%s", sc, bufSize, extra),
						Make: func() *vsched.Scenario { return pollLiveScenario(sc, bufSize, extra) },
					})
				}
			}
		}
		return vs
	})
}

// script: per descriptor (separated by |) a comma list of peer actions: wN write N bytes, s shutdown(WR), c close
func pollLiveScenario(script string, bufSize int, extra string) *vsched.Scenario {
	var stubs []*stubOp
	var sentTo [][]byte
	var peerClosed []bool
	var outRecv []byte
	var poll netpoll.Poll
	var epfd, evfd int
	pollClosed := false
	wakeupsBefore, wakeupsAfter := 0, 0
	lateCtl := ""
	outWant := 20000
	sc := &vsched.Scenario{Name: "poll.live", Horizon: 6000}
	sc.Body = func() {
		stubs, sentTo, peerClosed, outRecv, pollClosed = nil, nil, nil, nil, false
		wakeupsBefore, wakeupsAfter = 0, 0
		lateCtl = ""
		netpoll.VerifReset(1)
		netpoll.Initialize()
		_, _, polls := netpoll.VerifManagerState()
		poll = polls[0]
		epfd, evfd = netpoll.VerifPollFds(poll)
		vsyscall.L().Dev.ReadErr = extra == "rderr"
		descs := strings.Split(script, "|")
		sentTo = make([][]byte, len(descs))
		peerClosed = make([]bool, len(descs))
		for i := range descs {
			a, b := vsyscall.HSocketpair(4096)
			var out []byte
			if extra == "out" && i == 0 {
				out = stream(500, outWant)
			}
			s := newStub(i, poll, a, b, bufSize, out)
			stubs = append(stubs, s)
			if err := s.op.Control(netpoll.PollReadable); err != nil {
				panic(err)
			}
			if out != nil {
				s.op.Control(netpoll.PollR2RW)
			}
		}
		for i, d := range descs {
			i, d := i, d
			vsched.Go(fmt.Sprintf("peer%d", i), func() {
				off := 0
				for _, act := range strings.Split(d, ",") {
					switch act[0] {
					case 'w':
						n := int(act[1] - '0')
						p := stream(off+100*i, n)
						vsyscall.HWrite(stubs[i].pfd, p)
						sentTo[i] = append(sentTo[i], p...)
						off += n
					case 's':
						vsyscall.HShutdown(stubs[i].pfd, syscall.SHUT_WR)
						peerClosed[i] = true
					case 'c':
						vsyscall.HClose(stubs[i].pfd)
						peerClosed[i] = true
					}
				}
				if extra == "out" && i == 0 && !strings.Contains(d, "c") {
					// drain what the poller sends
					buf := make([]byte, 65536)
					for len(outRecv) < outWant {
						vsched.WaitCond("out-readable", func() bool { return vsyscall.HReadable(stubs[0].pfd) })
						n, _ := vsyscall.HRead(stubs[0].pfd, buf)
						if n <= 0 {
							break
						}
						outRecv = append(outRecv, buf[:n]...)
					}
				}
			})
		}
		switch extra {
		case "late-ctl":
			// a writer that lost the race against the hang-up: its interest changes arrive after the
			// poller has deregistered the descriptor (which is still open). They must fail and must
			// not bring the descriptor back: no callback may fire for it any more.
			vsched.Go("late-writer", func() {
				vsched.WaitCond("hangup-reported", func() bool { return stubs[0].hups > 0 })
				e1 := stubs[0].op.Control(netpoll.PollR2RW)
				e2 := stubs[0].op.Control(netpoll.PollRW2R)
				lateCtl = fmt.Sprintf("%v|%v", e1 != nil, e2 != nil)
				vsched.LogEvent("late-ctl:done")
				vsched.Settle("after-late-ctl")
			})
		case "trigger":
			vsched.Go("trigger", func() {
				poll.Trigger()
				poll.Trigger()
				vsched.LogEvent("triggered")
				// once everything has gone idle (the loop is blocked in epoll_wait again), one more
				// Trigger has to wake it: the loop must serve a wake-up (read its eventfd) after it
				vsched.Settle("idle-after-triggers")
				wakeupsBefore = vsyscall.L().EventfdReads
				poll.Trigger()
				vsched.Settle("idle-after-late-trigger")
				wakeupsAfter = vsyscall.L().EventfdReads
				vsched.LogEvent("late-trigger-done")
			})
		case "pollclose":
			vsched.Go("pollcloser", func() {
				poll.Close()
				pollClosed = true
				vsched.LogEvent("poll:close-ret")
			})
		}
	}
	sc.Outcome = func(ex *vsched.Exec) string {
		var o []string
		for _, s := range stubs {
			o = append(o, strings.Join(s.events, " "))
		}
		return strings.Join(o, " | ")
	}
	sc.Check = func(ex *vsched.Exec) []vsched.Violation {
		vs := baseChecks("C11", ex, false)
		add := func(sig, msg string) { vs = append(vs, vsched.Violation{Sig: "C11 " + sig, Msg: msg}) }
		if ex.End != vsched.EndQuiescent {
			// safety clauses hold at every point of every execution, also one that was cut off
			for i, s := range stubs {
				tag := fmt.Sprintf("op%d", i)
				if s.hups > 1 {
					add("hup-twice", fmt.Sprintf("%s: OnHup reported %d times (execution ended by %s)", tag, s.hups, ex.End))
				}
				if len(s.afterHup) > 0 {
					n := len(s.afterHup)
					if n > 6 {
						n = 6
					}
					add("callback-after-hup", fmt.Sprintf("%s: callbacks after the hang-up was reported: %v... (execution ended by %s)", tag, s.afterHup[:n], ex.End))
				}
			}
			return vs
		}
		led := vsyscall.L()
		l := logIdx{ex}
		pollerExited := false
		for _, t := range ex.Threads() {
			if strings.HasPrefix(t.Name, "go@poll_manager.go") && t.Done() {
				pollerExited = true
			}
		}
		reset := map[int]bool{} // descriptors whose read failed with the injected ECONNRESET
		for _, fd := range led.ReadErrFds {
			reset[fd] = true
		}
		for i, s := range stubs {
			tag := fmt.Sprintf("op%d", i)
			if reset[s.fd] {
				// an error is a hang-up: reported exactly once, after deregistration, nothing afterwards;
				// what was delivered before it is a prefix (checked below), the rest is lost with the connection
				if s.hups != 1 {
					add(fmt.Sprintf("error-hups=%d", s.hups), fmt.Sprintf("%s: a read failed with ECONNRESET but OnHup ran %d times", tag, s.hups))
				}
			}
			if len(s.in) > len(sentTo[i]) || string(s.in) != string(sentTo[i][:len(s.in)]) {
				add("input-order", fmt.Sprintf("%s: the %d bytes delivered to Inputs/InputAck are not a prefix of the %d bytes the peer wrote", tag, len(s.in), len(sentTo[i])))
			}
			if s.hups > 1 {
				add("hup-twice", fmt.Sprintf("%s: OnHup reported %d times", tag, s.hups))
			}
			if len(s.afterHup) > 0 {
				add("callback-after-hup", fmt.Sprintf("%s: callbacks after the hang-up was reported: %v", tag, s.afterHup))
			}
			if s.hups > 0 {
				// reported only after deregistration
				hi := l.first(fmt.Sprintf("op%d:hup", i))
				del := -1
				for _, c := range led.Ctl {
					if c.Fd == s.fd && c.Op == syscall.EPOLL_CTL_DEL && c.Err == 0 {
						del = c.Step
						break
					}
				}
				if del < 0 || del > l.step(hi) {
					add("hup-before-detach", tag+": OnHup ran although the descriptor had not been deregistered from epoll")
				}
				if len(s.in) != len(sentTo[i]) && !reset[s.fd] {
					add("hup-before-data", fmt.Sprintf("%s: hang-up reported after only %d of the %d bytes the peer had written were delivered", tag, len(s.in), len(sentTo[i])))
				}
			}
			if !pollClosed || !pollerExited {
				if peerClosed[i] && s.hups == 0 {
					add("hup-missing", tag+": the peer closed/shut down but no hang-up was ever reported")
				}
				if !peerClosed[i] && s.hups > 0 && !(extra == "out" && i == 0) && !reset[s.fd] {
					add("hup-spurious", tag+": hang-up reported although the peer is still open")
				}
				if len(s.in) != len(sentTo[i]) && !reset[s.fd] {
					add("input-missing", fmt.Sprintf("%s: quiescent with only %d of %d bytes delivered", tag, len(s.in), len(sentTo[i])))
				}
			}
		}
		if extra == "out" {
			s := stubs[0]
			if !peerClosed[0] {
				if s.acked != outWant || string(outRecv) != string(stream(500, outWant)) {
					add("output-count", fmt.Sprintf("OutputAck was told %d bytes in total, the peer read %d, %d were submitted", s.acked, len(outRecv), outWant))
				}
			}
		}
		if extra == "pollclose" {
			if !pollerExited {
				add("close-loop-running", "Poll.Close returned but the Wait loop never exited")
			}
			for _, r := range led.Recs {
				if (r.Fd == epfd && r.Kind == "epoll") || (r.Fd == evfd && r.Kind == "eventfd") {
					c := r.Closes
					if c < 0 {
						c = -1 - c
					}
					if c != 1 {
						add("poller-fd-closes", fmt.Sprintf("poller descriptor %d (%s) closed %d times", r.Fd, r.Kind, c))
					}
				}
			}
		}
		if extra == "late-ctl" && l.count("late-ctl:done") == 1 && lateCtl != "true|true" {
			add("late-control-succeeded", fmt.Sprintf("an interest change on a descriptor the poller had already deregistered after its hang-up did not fail (R2RW failed|RW2R failed = %s): the descriptor is registered again", lateCtl))
		}
		if extra == "trigger" && l.count("triggered") != 1 {
			add("trigger-blocked", "Trigger did not return")
		}
		if extra == "trigger" && l.count("late-trigger-done") == 1 && wakeupsAfter == wakeupsBefore {
			add("trigger-no-wakeup", fmt.Sprintf("a Trigger issued while the loop was blocked in epoll_wait did not wake it (wake-ups served before %d, after %d)", wakeupsBefore, wakeupsAfter))
		}
		return vs
	}
	return sc
}

// ---- C11: event-array growth (poll.many): at least as many descriptors ready at once as the
// poller's event array holds (128), so that one epoll_wait fills it, the array and the barriers are
// re-allocated (Reset(size<<1)) and the rest is fetched by the next round; then a second wave and
// a close of every peer (one large hang-up batch). ----

func init() {
	register("poll.many", func(tier string) []Variant {
		var vs []Variant
		for _, n := range []int{128, 130} {
			for _, second := range []string{"close", "write+close"} {
				n, second := n, second
				vs = append(vs, Variant{
					Name: fmt.Sprintf("descriptors=%d,second=%s", n, second),
					Make: func() *vsched.Scenario { return pollManyScenario(n, second) },
				})
			}
		}
		return vs
	})
}

func pollManyScenario(n int, second string) *vsched.Scenario {
	var stubs []*stubOp
	var sentTo [][]byte
	sc := &vsched.Scenario{Name: "poll.many", Horizon: 60000}
	sc.Body = func() {
		stubs, sentTo = nil, nil
		netpoll.VerifReset(1)
		netpoll.Initialize()
		_, _, polls := netpoll.VerifManagerState()
		poll := polls[0]
		sentTo = make([][]byte, n)
		for i := 0; i < n; i++ {
			a, b := vsyscall.HSocketpair(4096)
			s := newStub(i, poll, a, b, 8, nil)
			stubs = append(stubs, s)
			if err := s.op.Control(netpoll.PollReadable); err != nil {
				panic(err)
			}
		}
		vsched.Go("peers", func() {
			// first wave: every descriptor becomes readable before the poller looks
			for i := 0; i < n; i++ {
				p := stream(7*i, 1)
				vsyscall.HWrite(stubs[i].pfd, p)
				sentTo[i] = append(sentTo[i], p...)
			}
			vsched.LogEvent("wave1-written")
			vsched.WaitCond("wave1-delivered", func() bool {
				for _, s := range stubs {
					if len(s.in) < 1 {
						return false
					}
				}
				return true
			})
			for i := 0; i < n; i++ {
				if second == "write+close" {
					p := stream(7*i+1, 2)
					vsyscall.HWrite(stubs[i].pfd, p)
					sentTo[i] = append(sentTo[i], p...)
				}
				vsyscall.HClose(stubs[i].pfd)
			}
			vsched.LogEvent("wave2-done")
		})
	}
	sc.Outcome = func(ex *vsched.Exec) string {
		hups, bytes := 0, 0
		for _, s := range stubs {
			hups += s.hups
			bytes += len(s.in)
		}
		return fmt.Sprintf("hups=%d bytes=%d", hups, bytes)
	}
	sc.Check = func(ex *vsched.Exec) []vsched.Violation {
		vs := baseChecks("C11", ex, false)
		add := func(sig, msg string) { vs = append(vs, vsched.Violation{Sig: "C11 " + sig, Msg: msg}) }
		if ex.End != vsched.EndQuiescent {
			return vs
		}
		for i, s := range stubs {
			tag := fmt.Sprintf("op%d (of %d)", i, n)
			if string(s.in) != string(sentTo[i]) {
				add("many input-mismatch", fmt.Sprintf("%s: delivered %d bytes, the peer wrote %d (or content differs)", tag, len(s.in), len(sentTo[i])))
			}
			if s.hups != 1 {
				add(fmt.Sprintf("many hups=%d", s.hups), fmt.Sprintf("%s: OnHup reported %d times after the peer closed", tag, s.hups))
			}
			if len(s.afterHup) > 0 {
				add("many callback-after-hup", fmt.Sprintf("%s: callbacks after the hang-up was reported: %v", tag, s.afterHup))
			}
		}
		_, _, polls := netpoll.VerifManagerState()
		size, caps := netpoll.VerifPollSize(polls[0])
		if size < 256 {
			add("many no-growth", fmt.Sprintf("the event array still holds %d entries (caps %d) although %d descriptors were ready at once", size, caps, n))
		}
		return vs
	}
	return sc
}
