package main

import (
	"context"
	"fmt"
	"strings"
	"syscall"

	"github.com/cloudwego/netpoll"
	"verif/engine/shim/vsyscall"
	"verif/engine/vsched"
)

// ---- C09: lifecycle callbacks in documented order (conn.lifecycle) ----

func init() {
	register("conn.lifecycle", func(tier string) []Variant {
		var vs []Variant
		for _, oc := range []string{"none", "short", "long", "close"} {
			for _, or := range []string{"read", "close", "none"} {
				for _, env := range []string{"close", "send", "send+close"} {
					if or == "close" && env == "close" {
						continue
					}
					if or == "none" && oc == "none" {
						// neither OnConnect nor OnRequest: by design (comment in onHup) such a connection is
						// torn down only when its user calls Close; nothing of C09 to judge
						continue
					}
					oc, or, env := oc, or, env
					vs = append(vs, Variant{
						Name: fmt.Sprintf("onconnect=%s,onrequest=%s,peer=%s", oc, or, env),
						Make: func() *vsched.Scenario { return lifecycleScenario(oc, or, env) },
					})
				}
			}
		}
		return vs
	})
}

func lifecycleScenario(onConnect, onRequest, env string) *vsched.Scenario {
	var conn netpoll.Connection
	var a, b int
	sc := &vsched.Scenario{Name: "conn.lifecycle", Horizon: 4000}
	sc.Body = func() {
		netpoll.VerifReset(1)
		a, b = vsyscall.HSocketpair(0)
		vsyscall.Adopt(a)
		opts := []netpoll.Option{
			netpoll.WithOnPrepare(func(c netpoll.Connection) context.Context {
				vsched.LogEvent("prepare:start")
				conn = c
				c.AddCloseCallback(func(netpoll.Connection) error { vsched.LogEvent("closecb:1"); return nil })
				c.AddCloseCallback(func(netpoll.Connection) error { vsched.LogEvent("closecb:2"); return nil })
				vsched.LogEvent("prepare:end")
				return context.Background()
			}),
			netpoll.WithOnDisconnect(func(ctx context.Context, c netpoll.Connection) {
				vsched.LogEvent("disconnect:start")
				steps(c, 1)
				vsched.LogEvent("disconnect:end")
			}),
		}
		if onConnect != "none" {
			opts = append(opts, netpoll.WithOnConnect(func(ctx context.Context, c netpoll.Connection) context.Context {
				vsched.LogEvent("connect:start")
				switch onConnect {
				case "long":
					steps(c, 2)
				case "close":
					c.Close()
				}
				vsched.LogEvent("connect:end")
				return ctx
			}))
		}
		var handler netpoll.OnRequest = func(ctx context.Context, c netpoll.Connection) error {
			vsched.LogEvent("request:start")
			if onRequest == "close" {
				c.Close()
			} else {
				r := c.Reader()
				r.Next(r.Len())
				r.Release()
			}
			vsched.LogEvent("request:end")
			return nil
		}
		if onRequest == "none" {
			handler = nil // a server with OnConnect/OnDisconnect only: nobody consumes the input
		}
		srv := netpoll.VerifNewServer(handler, opts...)
		vsched.Go("peer", func() {
			for _, act := range strings.Split(env, "+") {
				switch act {
				case "send":
					vsyscall.HWrite(b, stream(0, 5))
				case "close":
					vsyscall.HClose(b)
					vsched.LogEvent("peer:closed")
				}
			}
		})
		srv.Accept(a, "unix")
	}
	sc.Check = func(ex *vsched.Exec) []vsched.Violation {
		vs := baseChecks("C09", ex, false)
		if ex.End != vsched.EndQuiescent {
			return vs
		}
		l := logIdx{ex}
		add := func(sig, msg string) { vs = append(vs, vsched.Violation{Sig: "C09 " + sig, Msg: msg}) }
		// OnPrepare end before registration
		pe := l.first("prepare:end")
		for _, c := range vsyscall.L().Ctl {
			if c.Fd == a && c.Op == syscall.EPOLL_CTL_ADD && (pe < 0 || c.Step < l.step(pe)) {
				add("registered-before-prepare-end", "connection registered with the poller before OnPrepare returned")
			}
		}
		hasOC := onConnect != "none"
		ce, cs := l.first("connect:end"), l.first("connect:start")
		rs := l.first("request:start")
		if hasOC && rs >= 0 && (ce < 0 || rs < ce) {
			add("request-before-connect-end", "OnRequest started before OnConnect finished")
		}
		if l.count("connect:start") > 1 {
			add("connect-twice", "OnConnect ran twice")
		}
		nd := l.count("disconnect:start")
		ds, de := l.first("disconnect:start"), l.first("disconnect:end")
		if nd > 1 {
			add("disconnect-twice", "OnDisconnect ran more than once")
		}
		if hasOC && ds >= 0 && (ce < 0 || ds < ce) {
			add("disconnect-before-connect-end", "OnDisconnect started before OnConnect finished")
		}
		cb := l.firstPrefix("closecb:")
		st := netpoll.VerifState(conn)
		peerClosed := l.first("peer:closed") >= 0
		userCloses := onConnect == "close" || onRequest == "close"
		if peerClosed && !userCloses && (!hasOC || cs >= 0) {
			if st.Closing == 0 {
				add("hangup-not-noticed", "peer closed but the connection is still active at quiescence")
			} else if nd == 0 {
				add("disconnect-lost", fmt.Sprintf("peer closed a connection whose OnConnect %s, but OnDisconnect never ran (closing=%d state=%d)", map[bool]string{true: "ran", false: "is not configured"}[hasOC], st.Closing, st.State))
			}
		}
		if nd > 0 && cb >= 0 && (de < 0 || de > cb) {
			// who ran the close callbacks while OnDisconnect had not returned?
			closer := threadRole(ex, ex.Log[cb].Thread)
			add("order OnDisconnect>closecb closer="+closer, fmt.Sprintf("OnDisconnect had not returned when the close callbacks started (close callbacks run by %s, OnDisconnect by %s)", closer, threadRole(ex, ex.Log[ds].Thread)))
		}
		// close callbacks last, in reverse registration order, once
		if cb >= 0 {
			if l.count("closecb:1") > 1 || l.count("closecb:2") > 1 {
				add("closecb-twice", "a close callback ran twice")
			}
			if c2, c1 := l.first("closecb:2"), l.first("closecb:1"); c1 >= 0 && c2 > c1 {
				add("closecb-order", "close callbacks did not run in reverse registration order")
			}
			for i := cb; i < len(ex.Log); i++ {
				m := ex.Log[i].Msg
				if strings.HasSuffix(m, ":start") && m != "disconnect:start" {
					add("callback-after-closecb "+strings.TrimSuffix(m, ":start"), "callback "+m+" started after the close callbacks")
				}
			}
		}
		if (peerClosed || userCloses) && cb < 0 && st.Closing != 0 {
			add("closecb-never", "connection closed but its close callbacks never ran")
		}
		return vs
	}
	return sc
}
