#!/bin/bash
# usage: runall.sh <worker> <scenario> <deadline> [extra args]  -- runs all variants 16-way parallel, prints summary of found sigs
w=$1; sc=$2; dl=$3; shift 3
mkdir -p /verif/work/runall; rm -f /verif/work/runall/*.json
$w -list -scenario $sc | cut -f2 | xargs -P 16 -I{} sh -c "$w -scenario $sc -variant '{}' -deadline $dl $* -out /verif/work/runall/\$(echo '{}' | md5sum | cut -c1-12).json"
python3 - <<'PY'
import json,glob,collections
tot=collections.Counter(); sigs={}
for f in glob.glob('/verif/work/runall/*.json'):
    d=json.load(open(f)); r=d['report']
    tot['execs']+=r['Execs']; tot['states']+=r['States']; tot['variants']+=1
    if not r['Exhaustive']: tot['capped']+=1
    if r.get('Nondet'): print('NONDET',d['variant'],r['Nondet'])
    for x in r['Found'] or []:
        s=sigs.setdefault(x['Sig'],{'count':0,'ex':None,'variant':d['variant'],'msg':x['Msg'],'pb':x['PB']})
        s['count']+=x['Count']
        if s['ex'] is None or len(x['Trace'])<len(s['ex']): s['ex']=x['Trace']; s['variant']=d['variant']; s['msg']=x['Msg']
print(dict(tot))
for k in sorted(sigs):
    s=sigs[k]; print('SIG',k,'| n=',s['count'],'|',s['variant'],'|',s['msg'][:250].replace('\n',' / '))
    if len(s['ex'])<15: print('     ',s['ex'])
PY
