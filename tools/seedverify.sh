#!/bin/bash
# usage: seedverify.sh <mode> <seed-name> <property> [check ids...]
#   mode confirm : in a fresh scratch worktree of /repo HEAD (outside /repo and /verif, removed
#                  afterwards) confirm that the demonstration fails with the change and passes
#                  without it, and that the existing suite still passes with the change
#   mode check   : run the given checks against such a worktree with the change applied
#                  (VERIF_REPO=<worktree>); /repo itself is not touched
#   mode official: the route of the task brief: git -C /repo apply, run the checks against /repo,
#                  git -C /repo checkout -- .   (only when nothing else is using /repo)
# Inputs are /verif/seeded/<seed-name>/{patch.diff, zz_seed_demo_test.go.txt, .pkg, NOTES.md};
# results go to confirm.json / check-<id>.out there; tools/seedmeta.py builds meta.json.
# All `go test` runs happen in a private network namespace: the repository's tests bind fixed
# TCP ports and would otherwise interfere with anything else running on the machine.
set -u
mode=$1; name=$2; prop=$3; shift 3; checks="$*"
export GOFLAGS=-mod=mod GOPROXY=off GOSUMDB=off GOTOOLCHAIN=local
d=/verif/seeded/$name
pkg=$(cat $d/.pkg 2>/dev/null || echo .)
ns() { unshare -n bash -c "ip link set lo up; $1"; }
mkwt() {
  wt=$(mktemp -d /tmp/sv-XXXXXX); rmdir $wt
  git -C /repo worktree add --detach -q $wt HEAD || exit 3
}
rmwt() { git -C /repo worktree remove --force $wt; git -C /repo worktree prune; rm -rf $wt; }
case $mode in
confirm)
  mkwt; cd $wt
  log=$d/confirm.log; : > $log
  raceflag=""; [ "$prop" = C19 ] && raceflag="-race"
  cp $d/zz_seed_demo_test.go.txt $wt/$pkg/zz_seed_demo_test.go
  applies=0; git apply --check $d/patch.diff 2>>$log && applies=1
  if [ $applies = 0 ]; then git apply --3way $d/patch.diff >>$log 2>&1 && applies=2; git reset -q; fi
  [ $applies = 1 ] && git apply $d/patch.diff
  echo "== demo WITH change (expect FAIL): go test $raceflag -vet=off -count=1 -run TestSeed ./$pkg" >> $log
  ns "go test $raceflag -vet=off -count=1 -timeout 10m -run TestSeed ./$pkg" >> $log 2>&1; with=$?
  git diff > $wt/.applied.diff; git apply -R $wt/.applied.diff
  echo "== demo WITHOUT change (expect ok)" >> $log
  ns "go test $raceflag -vet=off -count=1 -timeout 10m -run TestSeed ./$pkg" >> $log 2>&1; without=$?
  git apply $wt/.applied.diff
  echo "== suite WITH change (expect ok): go build ./... && go test -vet=off -count=1 -timeout 25m -skip TestSeed ./..." >> $log
  ns "go build ./... && go test -vet=off -count=1 -timeout 25m -skip TestSeed ./..." >> $log 2>&1; suite=$?
  if [ $suite != 0 ]; then
    echo "== suite WITH change, second attempt (the suite has load-sensitive tests)" >> $log
    ns "go test -vet=off -count=1 -timeout 25m -skip TestSeed ./..." >> $log 2>&1; suite=$?
  fi
  head=$(git -C /repo rev-parse --short HEAD)
  echo "{\"repo_head\":\"$head\",\"patch_applies\":$applies,\"demo_with_change_exit\":$with,\"demo_without_change_exit\":$without,\"suite_with_change_exit\":$suite}" > $d/confirm.json
  cd /; rmwt
  echo "SEED $name confirm: applies=$applies demo_with=$with demo_without=$without suite_with=$suite"
  ;;
check)
  mkwt; cd $wt
  git apply $d/patch.diff 2>/dev/null || git apply --3way $d/patch.diff || { echo "patch does not apply"; cd /; rmwt; exit 3; }
  git reset -q
  for c in $checks; do
    VERIF_REPO=$wt /verif/bin/check $c > $d/check-$c.out 2>&1; rc=$?
    echo "SEED $name check $c exit=$rc: $(grep -E '^violation: ' $d/check-$c.out | sed 's/^violation: //' | sort -u | head -4 | tr '\n' ';')"
  done
  cd /; rmwt
  (cd /verif && git checkout -- evidence)
  ;;
official)
  git -C /repo apply $d/patch.diff || exit 3
  for c in $checks; do
    /verif/bin/check $c > $d/check-$c.out 2>&1; rc=$?
    echo "SEED $name check(official route) $c exit=$rc: $(grep -E '^violation: ' $d/check-$c.out | sed 's/^violation: //' | sort -u | head -4 | tr '\n' ';')"
  done
  git -C /repo checkout -- .
  (cd /verif && git checkout -- evidence)
  ;;
esac
