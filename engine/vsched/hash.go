package vsched

//go:norace
func mix3(a, b, c uint64) uint64 {
	h := a*0x9e3779b97f4a7c15 ^ (b + 0xbf58476d1ce4e5b9 + (a << 6) + (a >> 2))
	h ^= h >> 31
	h *= 0x94d049bb133111eb
	h ^= c + 0x2545f4914f6cdd1d + (h << 7) + (h >> 3)
	h ^= h >> 29
	h *= 0xbf58476d1ce4e5b9
	h ^= h >> 32
	return h
}

//go:norace
func strHash(s string) uint64 {
	var h uint64 = 14695981039346656037
	for i := 0; i < len(s); i++ {
		h ^= uint64(s[i])
		h *= 1099511628211
	}
	return h
}

// objState is the happens-before summary of one synchronisation object.
type objState struct {
	id      uintptr
	lastW   uint64
	readers uint64
	used    bool
}

//go:norace
func (o *objState) key() uint64 {
	if o.lastW == 0 && o.readers == 0 {
		return 0 // never written and never read: same as absent
	}
	return mix3(o.lastW, o.readers, 0x0b1)
}

// objTab: open-addressing table uintptr -> *objState (no Go maps: see package doc).
type objTab struct {
	slots   []objState
	usedIdx []int32
	n       int
}

// reset clears the table for the next execution without giving its memory back
// (fresh pages are very expensive on this platform).
//
//go:norace
func (t *objTab) reset() {
	for _, i := range t.usedIdx {
		t.slots[i] = objState{}
	}
	t.usedIdx = t.usedIdx[:0]
	t.n = 0
}

//go:norace
func (t *objTab) get(id uintptr) *objState {
	if len(t.slots) == 0 {
		t.slots = make([]objState, 256)
	}
	if t.n*2 >= len(t.slots) {
		t.grow()
	}
	mask := uintptr(len(t.slots) - 1)
	i := uintptr(mix3(uint64(id), 1, 2)) & mask
	for {
		s := &t.slots[i]
		if !s.used {
			s.used = true
			s.id = id
			t.n++
			t.usedIdx = append(t.usedIdx, int32(i))
			return s
		}
		if s.id == id {
			return s
		}
		i = (i + 1) & mask
	}
}

//go:norace
func (t *objTab) grow() {
	old := t.slots
	t.slots = make([]objState, len(old)*2)
	t.usedIdx = t.usedIdx[:0]
	t.n = 0
	for i := range old {
		if old[i].used {
			s := t.get(old[i].id)
			*s = old[i]
		}
	}
}

// maxCacheSlots bounds the state cache of one worker: 2^25 slots = 320 MB (16 workers: 5 GB).
const maxCacheSlots = 1 << 25

// stateCache remembers, per happens-before state key, the largest remaining
// (preemption, deviation) budgets it was reached with.
type stateCache struct {
	keys []uint64
	pb   []int8
	db   []int8
	n    int
	hits int64
}

//go:norace
func newStateCache() *stateCache {
	c := &stateCache{}
	c.alloc(1 << 18)
	return c
}

// clear empties the cache keeping its memory.
//
//go:norace
func (c *stateCache) clear() {
	for i := range c.keys {
		c.keys[i] = 0
	}
	c.n = 0
	c.hits = 0
}

//go:norace
func (c *stateCache) alloc(sz int) {
	c.keys = make([]uint64, sz)
	c.pb = make([]int8, sz)
	c.db = make([]int8, sz)
	c.n = 0
}

// seen reports whether key was already reached with budgets >= (pb,db); otherwise records it.
// A state reached with incomparable budgets keeps the component-wise max only when the new
// pair dominates; if incomparable we conservatively re-explore and keep the entry with larger pb.
//
//go:norace
func (c *stateCache) seen(key uint64, pb, db int) bool {
	if key == 0 {
		key = 1
	}
	if pb > 100 {
		pb = 100
	}
	if db > 100 {
		db = 100
	}
	if c.n*2 >= len(c.keys) {
		if len(c.keys) >= maxCacheSlots {
			// Memory bound (a long thorough run visits hundreds of millions of states): the table
			// stops growing. Entries that are already there keep pruning; a new state is only
			// remembered while the table is at most 7/8 full, otherwise it is explored again when
			// met again - never pruned wrongly, only less often.
			if c.n*8 >= len(c.keys)*7 {
				mask := uint64(len(c.keys) - 1)
				for i := key & mask; ; i = (i + 1) & mask {
					k := c.keys[i]
					if k == 0 {
						return false
					}
					if k == key {
						if int(c.pb[i]) >= pb && int(c.db[i]) >= db {
							c.hits++
							return true
						}
						return false
					}
				}
			}
		} else {
			ok, opb, odb := c.keys, c.pb, c.db
			c.alloc(len(ok) * 2)
			for i, k := range ok {
				if k != 0 {
					c.put(k, opb[i], odb[i])
				}
			}
		}
	}
	mask := uint64(len(c.keys) - 1)
	i := key & mask
	for {
		k := c.keys[i]
		if k == 0 {
			c.keys[i] = key
			c.pb[i] = int8(pb)
			c.db[i] = int8(db)
			c.n++
			return false
		}
		if k == key {
			if int(c.pb[i]) >= pb && int(c.db[i]) >= db {
				c.hits++
				return true
			}
			if pb >= int(c.pb[i]) && db >= int(c.db[i]) {
				c.pb[i], c.db[i] = int8(pb), int8(db)
			} else if pb > int(c.pb[i]) {
				c.pb[i], c.db[i] = int8(pb), int8(db)
			}
			return false
		}
		i = (i + 1) & mask
	}
}

//go:norace
func (c *stateCache) put(key uint64, pb, db int8) {
	mask := uint64(len(c.keys) - 1)
	i := key & mask
	for c.keys[i] != 0 {
		i = (i + 1) & mask
	}
	c.keys[i] = key
	c.pb[i] = pb
	c.db[i] = db
	c.n++
}
