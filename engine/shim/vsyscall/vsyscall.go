// Package vsyscall wraps the system calls netpoll issues: each call is a
// scheduler point on the execution's kernel object, descriptor-creating and
// -closing calls go through the fd ledger (C15), a blocking epoll_wait becomes
// "enabled iff poll(2) says the epoll fd is readable", and selected calls can be
// answered with environment deviations (short read/write, EAGAIN, EINTR, EMFILE).
package vsyscall

import (
	"fmt"
	"syscall"
	"unsafe"

	"verif/engine/vsched"
)

// ---------------------------------------------------------------- ledger

type FdRec struct {
	Fd      int
	Kind    string // socket, accepted, epoll, eventfd, pair, adopted
	Owner   string // "netpoll" or "harness"
	Open    bool
	Closes  int
	Creator string
}

type CtlRec struct {
	Epfd, Op, Fd int
	Events       uint32
	Err          syscall.Errno
	Step         int
}

type Ledger struct {
	Recs           []*FdRec // every descriptor creation of this execution, in order
	BadCloses      []string // closes of descriptors netpoll does not own / that are not open
	Ctl            []CtlRec
	CloseLog       []string
	Dev            Deviations
	SysLog         []string    // when Trace: rendered syscalls
	ReadErrFds     []int       // descriptors on which an injected read error was returned
	EventfdReadsBy map[int]int // per eventfd descriptor
	EventfdReads   int         // read(2) calls netpoll issued on eventfd descriptors (poller wake-ups served)
}

// Deviations enabled by the scenario (all off = the kernel's real answers only).
type Deviations struct {
	SendShort      bool // sendmsg/writev: short write (half, 1 byte) or EAGAIN
	ReadShort      bool // readv: short read (1 byte, half) or EAGAIN
	EpollEINTR     bool
	AcceptEMFILE   bool
	CtlFail        bool // epoll_ctl ADD fails with ENOMEM
	CtlFailFd      int  // if non-zero: only registrations of this descriptor may fail
	SockoptFail    bool
	PollCreateFail bool // epoll_create1 / eventfd2 fail with EMFILE
	DialRetry      bool // connect fails with EADDRNOTAVAIL / getsockname reports local == remote (self-connect)
	ReadErr        bool // readv fails with ECONNRESET (a reset connection; AF_UNIX cannot produce it)
}

var led *Ledger

func init() {
	vsched.OnExecStart(func(ex *vsched.Exec) {
		led = &Ledger{}
		ex.Locals[0] = led
		ex.OnEnd(func() {
			l := led
			// close whatever is still open, by ledger only (never by scanning numbers)
			for _, r := range l.Recs {
				if r.Open {
					rawClose(r.Fd)
					r.Open = false
					r.Closes = -1 - r.Closes // mark: closed by teardown, not by the program
				}
			}
		})
	})
}

// L returns the current execution's ledger.
//
//go:norace
func L() *Ledger { return led }

//go:norace
func (l *Ledger) find(fd int) *FdRec {
	for i := len(l.Recs) - 1; i >= 0; i-- {
		if l.Recs[i].Fd == fd && l.Recs[i].Open {
			return l.Recs[i]
		}
	}
	return nil
}

//go:norace
func (l *Ledger) created(fd int, kind, owner string) {
	l.Recs = append(l.Recs, &FdRec{Fd: fd, Kind: kind, Owner: owner, Open: true})
}

// Adopt transfers a harness-created descriptor to netpoll (it must now close it exactly once).
//
//go:norace
func Adopt(fd int) {
	if led == nil {
		return
	}
	if r := led.find(fd); r != nil {
		r.Owner = "netpoll"
		r.Kind += "+adopted"
	}
}

// Disown hands a descriptor back to the harness (after Detach).
//
//go:norace
func Disown(fd int) {
	if led == nil {
		return
	}
	if r := led.find(fd); r != nil {
		r.Owner = "harness"
	}
}

// ptf is pt with a lazily rendered description (only formatted when tracing).
//
//go:norace
func ptf(format string, args ...interface{}) {
	if ex := vsched.Cur(); ex != nil {
		what := ""
		if ex.TraceOn {
			what = fmt.Sprintf(format, args...)
		} else {
			what = format
		}
		vsched.Point(vsched.KSys, vsched.ObjKernel, true, what)
	}
}

//go:norace
func pt(what string) {
	if vsched.Active() {
		vsched.Point(vsched.KSys, vsched.ObjKernel, true, what)
	}
}

// Raw (non-blocking) system calls: every descriptor the harness and netpoll use is
// non-blocking, so the runtime's entersyscall/exitsyscall bookkeeping (and the P hand-off
// it triggers when many spinning goroutines are runnable) is unnecessary and costly.

//go:norace
func rawClose(fd int) error {
	_, _, e := syscall.RawSyscall(syscall.SYS_CLOSE, uintptr(fd), 0, 0)
	if e != 0 {
		return e
	}
	return nil
}

//go:norace
func rawRead(fd int, p []byte) (int, error) {
	var ptr unsafe.Pointer
	if len(p) > 0 {
		ptr = unsafe.Pointer(&p[0])
	} else {
		ptr = unsafe.Pointer(&zeroByte)
	}
	r, _, e := syscall.RawSyscall(syscall.SYS_READ, uintptr(fd), uintptr(ptr), uintptr(len(p)))
	if e != 0 {
		return -1, e
	}
	return int(r), nil
}

//go:norace
func rawWrite(fd int, p []byte) (int, error) {
	var ptr unsafe.Pointer
	if len(p) > 0 {
		ptr = unsafe.Pointer(&p[0])
	} else {
		ptr = unsafe.Pointer(&zeroByte)
	}
	r, _, e := syscall.RawSyscall(syscall.SYS_WRITE, uintptr(fd), uintptr(ptr), uintptr(len(p)))
	if e != 0 {
		return -1, e
	}
	return int(r), nil
}

var zeroByte byte

// ---------------------------------------------------------------- netpoll-facing wrappers

//go:norace
func Close(fd int) error {
	if !vsched.Active() || led == nil {
		return syscall.Close(fd)
	}
	ptf("close(%d)", fd)
	l := led
	r := l.find(fd)
	if r == nil {
		l.BadCloses = append(l.BadCloses, fmt.Sprintf("close(%d): descriptor is not open (EBADF, or a number that now belongs to someone else)", fd))
		return syscall.EBADF
	}
	if r.Owner == "harness" && r.Kind == "adversary" {
		// netpoll is closing a number that has been given to somebody else in the meantime
		l.BadCloses = append(l.BadCloses, fmt.Sprintf("close(%d): the number was closed before and now belongs to another owner (adversary descriptor destroyed)", fd))
		r.Open = false
		return rawClose(fd)
	}
	if r.Owner != "netpoll" {
		l.BadCloses = append(l.BadCloses, fmt.Sprintf("close(%d): descriptor is owned by %s, not by netpoll", fd, r.Owner))
		return nil
	}
	r.Open = false
	r.Closes++
	err := rawClose(fd)
	if AfterClose != nil {
		AfterClose(fd)
	}
	return err
}

//go:norace
func Read(fd int, p []byte) (int, error) {
	ptf("read(%d)", fd)
	if !vsched.Active() {
		return syscall.Read(fd, p)
	}
	if led != nil {
		if r := led.find(fd); r != nil && r.Kind == "eventfd" {
			// netpoll's wake-up eventfd is a BLOCKING descriptor: a read with nothing written blocks
			// in the kernel, where the scheduler could not see it (the worker would hang). Modelled as
			// a blocking operation: enabled iff the counter is non-zero; never enabled = deadlock verdict.
			vsched.Block(vsched.KSys, vsched.ObjKernel, "read(eventfd)", func() bool { return Readable(fd) })
			led.EventfdReads++
			if led.EventfdReadsBy == nil {
				led.EventfdReadsBy = map[int]int{}
			}
			led.EventfdReadsBy[fd]++
		}
	}
	return rawRead(fd, p)
}

//go:norace
func Write(fd int, p []byte) (int, error) {
	ptf("write(%d,%d)", fd, len(p))
	if !vsched.Active() {
		return syscall.Write(fd, p)
	}
	return rawWrite(fd, p)
}

//go:norace
func Socket(domain, typ, proto int) (int, error) {
	pt("socket")
	fd, err := syscall.Socket(domain, typ, proto)
	if err == nil && led != nil && vsched.Active() {
		led.created(fd, "socket", "netpoll")
	}
	return fd, err
}

//go:norace
func Socketpair(domain, typ, proto int) ([2]int, error) {
	pt("socketpair")
	fds, err := syscall.Socketpair(domain, typ, proto)
	if err == nil && led != nil && vsched.Active() {
		led.created(fds[0], "pair", "netpoll")
		led.created(fds[1], "pair", "netpoll")
	}
	return fds, err
}

//go:norace
func Accept(fd int) (int, syscall.Sockaddr, error) {
	ptf("accept(%d)", fd)
	if vsched.Active() && led != nil && led.Dev.AcceptEMFILE {
		if vsched.Choose(2, "accept:EMFILE") == 1 {
			return -1, nil, syscall.EMFILE
		}
	}
	nfd, sa, err := syscall.Accept(fd)
	if err == nil && led != nil && vsched.Active() {
		led.created(nfd, "accepted", "netpoll")
	}
	return nfd, sa, err
}

//go:norace
func Connect(fd int, sa syscall.Sockaddr) error {
	ptf("connect(%d)", fd)
	if vsched.Active() && led != nil && led.Dev.DialRetry {
		if vsched.Choose(2, "connect:EADDRNOTAVAIL") == 1 {
			return syscall.EADDRNOTAVAIL
		}
	}
	err := syscall.Connect(fd, sa)
	if err == syscall.EINPROGRESS && vsched.Active() {
		settleConnect(fd)
	}
	return err
}

//go:norace
func Bind(fd int, sa syscall.Sockaddr) error {
	pt("bind")
	return syscall.Bind(fd, sa)
}

//go:norace
func SetNonblock(fd int, nb bool) error {
	ptf("setnonblock(%d)", fd)
	if !vsched.Active() {
		return syscall.SetNonblock(fd, nb)
	}
	fl, _, e := syscall.RawSyscall(syscall.SYS_FCNTL, uintptr(fd), syscall.F_GETFL, 0)
	if e != 0 {
		return e
	}
	if nb {
		fl |= syscall.O_NONBLOCK
	} else {
		fl &^= syscall.O_NONBLOCK
	}
	if _, _, e = syscall.RawSyscall(syscall.SYS_FCNTL, uintptr(fd), syscall.F_SETFL, fl); e != 0 {
		return e
	}
	return nil
}

//go:norace
func CloseOnExec(fd int) { syscall.CloseOnExec(fd) }

//go:norace
func SetsockoptInt(fd, level, opt, value int) error {
	ptf("setsockopt(%d)", fd)
	if vsched.Active() && led != nil && led.Dev.SockoptFail {
		if vsched.Choose(2, "setsockopt:fail") == 1 {
			return syscall.ENOPROTOOPT
		}
	}
	return syscall.SetsockoptInt(fd, level, opt, value)
}

//go:norace
func GetsockoptInt(fd, level, opt int) (int, error) {
	ptf("getsockopt(%d)", fd)
	return syscall.GetsockoptInt(fd, level, opt)
}

//go:norace
func Getpeername(fd int) (syscall.Sockaddr, error) {
	ptf("getpeername(%d)", fd)
	return syscall.Getpeername(fd)
}

//go:norace
func Getsockname(fd int) (syscall.Sockaddr, error) {
	ptf("getsockname(%d)", fd)
	if vsched.Active() && led != nil && led.Dev.DialRetry {
		// the kernel picked the destination port as source port: the socket is connected to itself
		if psa, err := syscall.Getpeername(fd); err == nil && vsched.Choose(2, "getsockname:self-connect") == 1 {
			return psa, nil
		}
	}
	return syscall.Getsockname(fd)
}

//go:norace
func Recvmsg(fd int, p, oob []byte, flags int) (n, oobn int, recvflags int, from syscall.Sockaddr, err error) {
	ptf("recvmsg(%d,flags=%#x)", fd, flags)
	return syscall.Recvmsg(fd, p, oob, flags)
}

//go:norace
func Shutdown(fd, how int) error {
	ptf("shutdown(%d,%d)", fd, how)
	return syscall.Shutdown(fd, how)
}

//go:norace
func Listen(fd, n int) error {
	pt("listen")
	return syscall.Listen(fd, n)
}

// ---------------------------------------------------------------- raw syscalls

type pollfd struct {
	fd      int32
	events  int16
	revents int16
}

// Readable reports whether fd is readable right now (poll(2), timeout 0): a
// non-consuming probe, also for epoll descriptors with edge-triggered members.
//
//go:norace
func Readable(fd int) bool {
	p := pollfd{fd: int32(fd), events: 1}
	n, _, _ := syscall.RawSyscall(syscall.SYS_POLL, uintptr(unsafe.Pointer(&p)), 1, 0)
	return int(n) > 0 && p.revents != 0
}

//go:nocheckptr
//go:norace
func iovTotal(iov *syscall.Iovec, n int) int {
	s := 0
	ivs := (*[1 << 16]syscall.Iovec)(unsafe.Pointer(iov))[:n:n]
	for i := range ivs {
		s += int(ivs[i].Len)
	}
	return s
}

// truncIov returns a copy of the vector limited to k bytes.
//
//go:nocheckptr
//go:norace
func truncIov(iov *syscall.Iovec, n, k int) []syscall.Iovec {
	ivs := (*[1 << 16]syscall.Iovec)(unsafe.Pointer(iov))[:n:n]
	out := make([]syscall.Iovec, 0, n)
	for i := range ivs {
		if k <= 0 {
			break
		}
		v := ivs[i]
		if int(v.Len) > k {
			v.Len = uint64(k)
		}
		k -= int(v.Len)
		out = append(out, v)
	}
	return out
}

// shortOptions: which byte counts a short transfer of total bytes may take.
//
//go:norace
func shortOptions(total int) []int {
	var o []int
	if total > 1 {
		o = append(o, 1)
	}
	if total > 3 {
		o = append(o, total/2)
	}
	if total > 2 {
		o = append(o, total-1)
	}
	return o
}

//go:uintptrescapes
//go:nocheckptr
//go:norace
func RawSyscall(trap, a1, a2, a3 uintptr) (r1, r2 uintptr, err syscall.Errno) {
	if !vsched.Active() || led == nil {
		return syscall.RawSyscall(trap, a1, a2, a3)
	}
	switch trap {
	case syscall.SYS_EPOLL_CREATE1:
		pt("epoll_create1")
		if led.Dev.PollCreateFail && vsched.Choose(2, "epoll_create1:EMFILE") == 1 {
			return ^uintptr(0), 0, syscall.EMFILE
		}
		r1, r2, err = syscall.RawSyscall(trap, a1, a2, a3)
		if err == 0 {
			led.created(int(r1), "epoll", "netpoll")
		}
		return
	case syscall.SYS_EVENTFD2:
		pt("eventfd2")
		if led.Dev.PollCreateFail && vsched.Choose(2, "eventfd2:EMFILE") == 1 {
			return ^uintptr(0), 0, syscall.EMFILE
		}
		r1, r2, err = syscall.RawSyscall(trap, a1, a2, a3)
		if err == 0 {
			led.created(int(r1), "eventfd", "netpoll")
		}
		return
	case syscall.SYS_SENDMSG:
		mh := (*syscall.Msghdr)(unsafe.Pointer(a2))
		total := iovTotal(mh.Iov, int(mh.Iovlen))
		ptf("sendmsg(%d,%d)", a1, total)
		if led.Dev.SendShort && total > 0 {
			so := shortOptions(total)
			c := vsched.Choose(2+len(so), "sendmsg")
			if c == 1 {
				return ^uintptr(0), 0, syscall.EAGAIN
			}
			if c >= 2 {
				ivs := truncIov(mh.Iov, int(mh.Iovlen), so[c-2])
				m2 := *mh
				m2.Iov = &ivs[0]
				m2.Iovlen = uint64(len(ivs))
				return syscall.RawSyscall(trap, a1, uintptr(unsafe.Pointer(&m2)), a3)
			}
		}
		return syscall.RawSyscall(trap, a1, a2, a3)
	case syscall.SYS_WRITEV:
		total := iovTotal((*syscall.Iovec)(unsafe.Pointer(a2)), int(a3))
		ptf("writev(%d,%d)", a1, total)
		if led.Dev.SendShort && total > 0 {
			so := shortOptions(total)
			c := vsched.Choose(2+len(so), "writev")
			if c == 1 {
				return ^uintptr(0), 0, syscall.EAGAIN
			}
			if c >= 2 {
				ivs := truncIov((*syscall.Iovec)(unsafe.Pointer(a2)), int(a3), so[c-2])
				return syscall.RawSyscall(trap, a1, uintptr(unsafe.Pointer(&ivs[0])), uintptr(len(ivs)))
			}
		}
		return syscall.RawSyscall(trap, a1, a2, a3)
	case syscall.SYS_READV:
		total := iovTotal((*syscall.Iovec)(unsafe.Pointer(a2)), int(a3))
		ptf("readv(%d,cap=%d)", a1, total)
		if led.Dev.ReadErr && vsched.Choose(2, "readv:ECONNRESET") == 1 {
			led.ReadErrFds = append(led.ReadErrFds, int(a1))
			return ^uintptr(0), 0, syscall.ECONNRESET
		}
		if led.Dev.ReadShort && total > 0 {
			// options: 0 real, 1.. short (the kernel hands over fewer bytes than are pending).
			// EAGAIN / EINTR are NOT injected: a non-blocking readv never reports "nothing there"
			// while data is pending, and netpoll (like everybody) takes that answer as "drained";
			// an earlier version offered them and made the thorough tier report data lost at a
			// hang-up - an answer no kernel gives (false alarm, corrected here). The genuine EAGAIN
			// of an empty socket is of course still the real call's own answer.
			so := []int{1, 2}
			if total < 3 {
				so = so[:0]
			}
			if len(so) > 0 {
				c := vsched.Choose(1+len(so), "readv")
				if c >= 1 {
					ivs := truncIov((*syscall.Iovec)(unsafe.Pointer(a2)), int(a3), so[c-1])
					return syscall.RawSyscall(trap, a1, uintptr(unsafe.Pointer(&ivs[0])), uintptr(len(ivs)))
				}
			}
		}
		return syscall.RawSyscall(trap, a1, a2, a3)
	}
	ptf("rawsyscall(%d)", trap)
	return syscall.RawSyscall(trap, a1, a2, a3)
}

//go:uintptrescapes
//go:nocheckptr
//go:norace
func Syscall(trap, a1, a2, a3 uintptr) (r1, r2 uintptr, err syscall.Errno) {
	if !vsched.Active() || led == nil {
		return syscall.Syscall(trap, a1, a2, a3)
	}
	return RawSyscall(trap, a1, a2, a3)
}

type epollEvent struct {
	events uint32
	data   [8]byte
}

//go:uintptrescapes
//go:nocheckptr
//go:norace
func RawSyscall6(trap, a1, a2, a3, a4, a5, a6 uintptr) (r1, r2 uintptr, err syscall.Errno) {
	if !vsched.Active() || led == nil {
		return syscall.RawSyscall6(trap, a1, a2, a3, a4, a5, a6)
	}
	switch trap {
	case syscall.SYS_EPOLL_CTL:
		var evs uint32
		if a4 != 0 {
			evs = (*epollEvent)(unsafe.Pointer(a4)).events
		}
		ptf("epoll_ctl(%d,op=%d,fd=%d,ev=%#x)", a1, a2, a3, evs)
		if led.Dev.CtlFail && int(a2) == syscall.EPOLL_CTL_ADD && (led.Dev.CtlFailFd == 0 || led.Dev.CtlFailFd == int(a3)) {
			if vsched.Choose(2, "epoll_ctl:fail") == 1 {
				led.Ctl = append(led.Ctl, CtlRec{Epfd: int(a1), Op: int(a2), Fd: int(a3), Events: evs, Err: syscall.ENOMEM, Step: vsched.Cur().Steps})
				return ^uintptr(0), 0, syscall.ENOMEM
			}
		}
		r1, r2, err = syscall.RawSyscall6(trap, a1, a2, a3, a4, a5, a6)
		led.Ctl = append(led.Ctl, CtlRec{Epfd: int(a1), Op: int(a2), Fd: int(a3), Events: evs, Err: err, Step: vsched.Cur().Steps})
		return
	case syscall.SYS_EPOLL_WAIT:
		return epollWait(a1, a2, a3, a4)
	}
	ptf("rawsyscall6(%d)", trap)
	return syscall.RawSyscall6(trap, a1, a2, a3, a4, a5, a6)
}

//go:uintptrescapes
//go:nocheckptr
//go:norace
func Syscall6(trap, a1, a2, a3, a4, a5, a6 uintptr) (r1, r2 uintptr, err syscall.Errno) {
	if !vsched.Active() || led == nil {
		return syscall.Syscall6(trap, a1, a2, a3, a4, a5, a6)
	}
	return RawSyscall6(trap, a1, a2, a3, a4, a5, a6)
}

//go:nocheckptr
//go:norace
func epollWait(epfd, events, n, msec uintptr) (r1, r2 uintptr, err syscall.Errno) {
	ex := vsched.Cur()
	if int32(msec) == 0 {
		if vsched.HogHint(false) {
			// third non-blocking poll in a row without being switched out: the loop is
			// busy-waiting for another thread (level-triggered event whose descriptor
			// is being deregistered elsewhere); model it as a yielding spin.
			vsched.Yield()
		}
		ptf("epoll_wait(%d,0)", epfd)
	} else {
		vsched.HogHint(true)
		var lastEpoch uint64 = ^uint64(0)
		var last bool
		vsched.Block(vsched.KEpollWait, vsched.ObjKernel, "epoll_wait(block)", func() bool {
			if e := ex.Epoch(); e != lastEpoch {
				lastEpoch = e
				last = Readable(int(epfd))
			}
			return last
		})
		if led.Dev.EpollEINTR {
			if vsched.Choose(2, "epoll_wait:EINTR") == 1 {
				return ^uintptr(0), 0, syscall.EINTR
			}
		}
	}
	return syscall.RawSyscall6(syscall.SYS_EPOLL_WAIT, epfd, events, n, 0, 0, 0)
}

// ---------------------------------------------------------------- harness-facing (environment / peer) calls

//go:norace
func HSocketpair(sndbuf int) (a, b int) {
	pt("H:socketpair")
	var fds [2]int32
	if _, _, e := syscall.RawSyscall6(syscall.SYS_SOCKETPAIR, syscall.AF_UNIX, syscall.SOCK_STREAM|syscall.SOCK_NONBLOCK|syscall.SOCK_CLOEXEC, 0, uintptr(unsafe.Pointer(&fds)), 0, 0); e != 0 {
		panic(e)
	}
	if sndbuf > 0 {
		syscall.SetsockoptInt(int(fds[0]), syscall.SOL_SOCKET, syscall.SO_SNDBUF, sndbuf)
		syscall.SetsockoptInt(int(fds[1]), syscall.SOL_SOCKET, syscall.SO_SNDBUF, sndbuf)
	}
	if led != nil {
		led.created(int(fds[0]), "pair", "harness")
		led.created(int(fds[1]), "pair", "harness")
	}
	return int(fds[0]), int(fds[1])
}

//go:norace
func HWrite(fd int, p []byte) (int, error) {
	ptf("H:write(%d,%d)", fd, len(p))
	return rawWrite(fd, p)
}

//go:norace
func HRead(fd int, p []byte) (int, error) {
	ptf("H:read(%d)", fd)
	return rawRead(fd, p)
}

//go:norace
func HShutdown(fd, how int) error {
	ptf("H:shutdown(%d,%d)", fd, how)
	return syscall.Shutdown(fd, how)
}

//go:norace
func HClose(fd int) error {
	ptf("H:close(%d)", fd)
	if led != nil {
		if r := led.find(fd); r != nil && r.Owner == "harness" {
			r.Open = false
			r.Closes++
			return rawClose(fd)
		}
		return syscall.EBADF
	}
	return rawClose(fd)
}

// HReadable is a readiness probe usable inside WaitCond predicates.
//
//go:norace
func HReadable(fd int) bool { return Readable(fd) }

// HOpenAny creates a harness-owned descriptor (adversary: takes the lowest free number).
//
//go:norace
func HOpenAny() int {
	pt("H:eventfd(adversary)")
	r, _, e := syscall.RawSyscall(syscall.SYS_EVENTFD2, 0, syscall.O_CLOEXEC, 0)
	if e != 0 {
		panic(e)
	}
	if led != nil {
		led.created(int(r), "adversary", "harness")
	}
	return int(r)
}

// HListenUnix creates a non-blocking AF_UNIX stream listener on an abstract address (harness-owned).
//
//go:norace
func HListenUnix(name string, backlog int) int {
	pt("H:listen")
	fd, err := syscall.Socket(syscall.AF_UNIX, syscall.SOCK_STREAM|syscall.SOCK_NONBLOCK|syscall.SOCK_CLOEXEC, 0)
	if err != nil {
		panic(err)
	}
	if err := syscall.Bind(fd, &syscall.SockaddrUnix{Name: "@" + name}); err != nil {
		panic(err)
	}
	if err := syscall.Listen(fd, backlog); err != nil {
		panic(err)
	}
	if led != nil {
		led.created(fd, "listener", "harness")
	}
	return fd
}

// HConnectUnix connects a new harness-owned socket to an abstract address (synchronous for AF_UNIX).
//
//go:norace
func HConnectUnix(name string) (int, error) {
	pt("H:connect")
	fd, err := syscall.Socket(syscall.AF_UNIX, syscall.SOCK_STREAM|syscall.SOCK_NONBLOCK|syscall.SOCK_CLOEXEC, 0)
	if err != nil {
		panic(err)
	}
	if led != nil {
		led.created(fd, "client", "harness")
	}
	err = syscall.Connect(fd, &syscall.SockaddrUnix{Name: "@" + name})
	return fd, err
}

// settleConnect waits (in real time, bounded) until the kernel has decided a loopback TCP
// handshake, so that every later readiness probe sees the same state on every replay. A SYN
// that is dropped (full backlog) stays undecided; the bound then simply expires.
//
//go:norace
func settleConnect(fd int) {
	p := pollfd{fd: int32(fd), events: 4} // POLLOUT
	for i := 0; i < 200; i++ {
		p.revents = 0
		n, _, _ := syscall.RawSyscall(syscall.SYS_POLL, uintptr(unsafe.Pointer(&p)), 1, 0)
		if int(n) > 0 && p.revents != 0 {
			return
		}
		ts := syscall.Timespec{Nsec: 10000}
		syscall.RawSyscall(syscall.SYS_NANOSLEEP, uintptr(unsafe.Pointer(&ts)), 0, 0)
	}
}

// HListenTCP creates a non-blocking loopback TCP listener on an ephemeral port (harness-owned).
//
//go:norace
func HListenTCP(backlog int) (fd, port int) {
	pt("H:listen-tcp")
	fd, err := syscall.Socket(syscall.AF_INET, syscall.SOCK_STREAM|syscall.SOCK_NONBLOCK|syscall.SOCK_CLOEXEC, 0)
	if err != nil {
		panic(err)
	}
	if err := syscall.Bind(fd, &syscall.SockaddrInet4{Addr: [4]byte{127, 0, 0, 1}}); err != nil {
		panic(err)
	}
	if err := syscall.Listen(fd, backlog); err != nil {
		panic(err)
	}
	sa, _ := syscall.Getsockname(fd)
	port = sa.(*syscall.SockaddrInet4).Port
	if led != nil {
		led.created(fd, "tcp-listener", "harness")
	}
	return fd, port
}

// HAccept accepts one pending connection on a harness listener (-1 if none).
//
//go:norace
func HAccept(lfd int) int {
	pt("H:accept")
	nfd, _, err := syscall.Accept4(lfd, syscall.SOCK_NONBLOCK|syscall.SOCK_CLOEXEC)
	if err != nil {
		return -1
	}
	if led != nil {
		led.created(nfd, "peer-accepted", "harness")
	}
	return nfd
}

// HConnectTCP starts a harness-side connection to the port (used to fill a backlog); returns the fd.
//
//go:norace
func HConnectTCP(port int) int {
	pt("H:connect-tcp")
	fd, err := syscall.Socket(syscall.AF_INET, syscall.SOCK_STREAM|syscall.SOCK_NONBLOCK|syscall.SOCK_CLOEXEC, 0)
	if err != nil {
		panic(err)
	}
	if led != nil {
		led.created(fd, "filler", "harness")
	}
	err = syscall.Connect(fd, &syscall.SockaddrInet4{Addr: [4]byte{127, 0, 0, 1}, Port: port})
	if err == syscall.EINPROGRESS {
		settleConnect(fd)
	}
	return fd
}

// HResetClose closes with SO_LINGER 0 so that the peer receives a RST.
//
//go:norace
func HResetClose(fd int) {
	syscall.SetsockoptLinger(fd, syscall.SOL_SOCKET, syscall.SO_LINGER, &syscall.Linger{Onoff: 1, Linger: 0})
	HClose(fd)
}

// HClosedPort returns a loopback port on which nothing listens.
//
//go:norace
func HClosedPort() int {
	// Bound but never listening: a connect is refused (RST), and - unlike a port that was merely
	// listened on and closed - no other worker process running in parallel can be handed the same
	// port by the kernel while this execution still dials it (that produced a rare cross-process
	// nondeterminism). The socket stays open until the ledger's teardown.
	pt("H:closed-port")
	fd, err := syscall.Socket(syscall.AF_INET, syscall.SOCK_STREAM|syscall.SOCK_NONBLOCK|syscall.SOCK_CLOEXEC, 0)
	if err != nil {
		panic(err)
	}
	if err := syscall.Bind(fd, &syscall.SockaddrInet4{Addr: [4]byte{127, 0, 0, 1}}); err != nil {
		panic(err)
	}
	sa, _ := syscall.Getsockname(fd)
	if led != nil {
		led.created(fd, "closed-port", "harness")
	}
	return sa.(*syscall.SockaddrInet4).Port
}

// Register makes a descriptor that was created outside the shim (package net / os.File) known to the
// ledger as owned by netpoll (it is expected to close it exactly once).
//
//go:norace
func Register(fd int, kind string) {
	if led != nil {
		led.created(fd, kind, "netpoll")
	}
}

// Fstat identity of a descriptor (device, inode), for the adversary check.
//
//go:norace
func FdIdentity(fd int) (uint64, uint64, bool) {
	var st syscall.Stat_t
	if err := syscall.Fstat(fd, &st); err != nil {
		return 0, 0, false
	}
	return uint64(st.Dev), st.Ino, true
}

// AfterClose lets a scenario run code right after netpoll closed a descriptor (adversary hook).
var AfterClose func(fd int)

// ClosedExternally records that a registered descriptor was closed by code the shim cannot see
// (os.File.Close): the caller has verified that the number is no longer open.
//
//go:norace
func ClosedExternally(fd int) {
	if led == nil {
		return
	}
	if r := led.find(fd); r != nil {
		r.Open = false
		r.Closes++
	}
}

// HasWriteInterest reports whether the last successful epoll_ctl ADD/MOD for fd asked for EPOLLOUT
// (plain reads of the ledger: usable inside scheduler predicates).
//
//go:norace
func (l *Ledger) HasWriteInterest(fd int) bool {
	for i := len(l.Ctl) - 1; i >= 0; i-- {
		c := l.Ctl[i]
		if c.Fd != fd || c.Err != 0 {
			continue
		}
		if c.Op == syscall.EPOLL_CTL_DEL {
			return false
		}
		return c.Events&syscall.EPOLLOUT != 0
	}
	return false
}
