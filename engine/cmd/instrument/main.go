// instrument reads the current working tree of cloudwego/netpoll and writes
// rewritten copies plus a `go build -overlay` JSON (DESIGN.md 2.1). Purely
// syntactic; /repo is never modified.
package main

import (
	"bytes"
	"encoding/json"
	"flag"
	"fmt"
	"go/ast"
	"go/format"
	"go/parser"
	"go/token"
	"os"
	"os/exec"
	"path/filepath"
	"sort"
	"strconv"
	"strings"
)

var (
	repo    = flag.String("repo", "/repo", "netpoll working tree")
	out     = flag.String("out", "", "output directory")
	engine  = flag.String("engine", defaultEngine(), "engine module directory")
	fine    = flag.Bool("fine", false, "statement-level plain points inside LinkBuffer methods")
	noAlloc = flag.Bool("noalloc", false, "do not replace mcache")
	extra   = flag.String("extra", "", "comma separated extra overlay pairs dst=src")
)

func defaultEngine() string {
	if exe, err := os.Executable(); err == nil {
		d := filepath.Join(filepath.Dir(filepath.Dir(exe)), "engine")
		if _, err := os.Stat(d); err == nil {
			return d
		}
	}
	return "/verif/engine"
}

const shimBase = "verif/engine/shim/"

type sel struct{ pkg, name string }

// selector rewrites: (import path, identifier) -> (shim import path, identifier); "*" = every identifier
var rewrites = map[string]map[string]sel{
	"sync/atomic": {"*": {shimBase + "vatomic", ""}},
	"sync": {
		"Mutex": {shimBase + "vsync", "Mutex"},
		"Pool":  {shimBase + "vsync", "Pool"},
		"Map":   {shimBase + "vsync", "Map"},
	},
	"runtime": {
		"Gosched":      {shimBase + "vruntime", "Gosched"},
		"GOMAXPROCS":   {shimBase + "vruntime", "GOMAXPROCS"},
		"SetFinalizer": {shimBase + "vruntime", "SetFinalizer"},
	},
	"time": {
		"Now": {shimBase + "vtime", "Now"}, "NewTimer": {shimBase + "vtime", "NewTimer"}, "Timer": {shimBase + "vtime", "Timer"},
		"Sleep": {shimBase + "vtime", "Sleep"}, "After": {shimBase + "vtime", "After"}, "AfterFunc": {shimBase + "vtime", "AfterFunc"},
		"Since": {shimBase + "vtime", "Since"}, "Until": {shimBase + "vtime", "Until"},
	},
	"context": {
		"WithTimeout": {shimBase + "vcontext", "WithTimeout"}, "WithDeadline": {shimBase + "vcontext", "WithDeadline"}, "WithCancel": {shimBase + "vcontext", "WithCancel"},
	},
	"syscall": {},
	"github.com/bytedance/gopkg/lang/fastrand": {
		"Intn": {"verif/engine/vsched", "EnvIntn"},
	},
}

func init() {
	for _, n := range []string{"Close", "Read", "Write", "Socket", "Socketpair", "Accept", "Connect", "Bind", "SetNonblock", "CloseOnExec",
		"SetsockoptInt", "GetsockoptInt", "Getpeername", "Getsockname", "Recvmsg", "Shutdown", "Listen",
		"RawSyscall", "RawSyscall6", "Syscall", "Syscall6"} {
		rewrites["syscall"][n] = sel{shimBase + "vsyscall", n}
	}
}

var shimNames = map[string]string{
	shimBase + "vatomic": "vatomic", shimBase + "vsync": "vsync", shimBase + "vruntime": "vruntime", shimBase + "vtime": "vtime",
	shimBase + "vcontext": "vcontext", shimBase + "vsyscall": "vsyscall", "verif/engine/vsched": "vsched",
}

type fileRW struct {
	fset    *token.FileSet
	f       *ast.File
	name    string
	imports map[string]string // local name -> path
	need    map[string]bool   // shim import paths needed
	changed bool
	tmpN    int
	errs    []string
}

func main() {
	flag.Parse()
	if *out == "" {
		fmt.Fprintln(os.Stderr, "need -out")
		os.Exit(2)
	}
	if abs, err := filepath.Abs(*out); err == nil {
		*out = abs
	}
	os.MkdirAll(*out, 0o755)
	overlay := map[string]string{}
	dirs := []string{"", "mux", "internal/runner"}
	var allErrs []string
	for _, d := range dirs {
		dir := filepath.Join(*repo, d)
		ents, err := os.ReadDir(dir)
		if err != nil {
			fatal(err)
		}
		for _, e := range ents {
			n := e.Name()
			if e.IsDir() || !strings.HasSuffix(n, ".go") || strings.HasSuffix(n, "_test.go") {
				continue
			}
			src := filepath.Join(dir, n)
			dst := filepath.Join(*out, strings.ReplaceAll(filepath.Join(d, n), "/", "__"))
			rw, err := rewriteFile(src)
			if err != nil {
				fatal(fmt.Errorf("%s: %v", src, err))
			}
			allErrs = append(allErrs, rw.errs...)
			if rw.changed {
				var buf bytes.Buffer
				if err := format.Node(&buf, rw.fset, rw.f); err != nil {
					fatal(fmt.Errorf("%s: print: %v", src, err))
				}
				if err := os.WriteFile(dst, buf.Bytes(), 0o644); err != nil {
					fatal(err)
				}
				overlay[src] = dst
			}
		}
	}
	if len(allErrs) > 0 {
		for _, e := range allErrs {
			fmt.Fprintln(os.Stderr, "instrument: unsupported construct:", e)
		}
		os.Exit(2)
	}
	// injected export files
	if ents, err := os.ReadDir(filepath.Join(*engine, "export")); err == nil {
		for _, e := range ents {
			n := e.Name()
			if !strings.HasSuffix(n, ".go.txt") {
				continue
			}
			base := strings.TrimSuffix(n, ".txt")
			if strings.HasPrefix(n, "export_mux") {
				overlay[filepath.Join(*repo, "mux", "zz_verif_"+base)] = filepath.Join(*engine, "export", n)
			} else {
				overlay[filepath.Join(*repo, "zz_verif_"+base)] = filepath.Join(*engine, "export", n)
			}
		}
	}
	if !*noAlloc {
		cmd := exec.Command("go", "list", "-m", "-f", "{{.Dir}}", "github.com/bytedance/gopkg")
		cmd.Dir = *repo
		cmd.Env = append(os.Environ(), "GOFLAGS=-mod=mod", "GOPROXY=off", "GOSUMDB=off", "GOTOOLCHAIN=local")
		b, err := cmd.Output()
		if err != nil {
			fatal(fmt.Errorf("go list gopkg: %v", err))
		}
		mdir := filepath.Join(strings.TrimSpace(string(b)), "lang", "mcache")
		empty := filepath.Join(*out, "mcache_empty.go")
		os.WriteFile(empty, []byte("package mcache\n"), 0o644)
		ents, _ := os.ReadDir(mdir)
		first := true
		for _, e := range ents {
			n := e.Name()
			if !strings.HasSuffix(n, ".go") || strings.HasSuffix(n, "_test.go") {
				continue
			}
			if first {
				overlay[filepath.Join(mdir, n)] = filepath.Join(*engine, "alloc", "mcache_replacement.go.txt")
				first = false
			} else {
				overlay[filepath.Join(mdir, n)] = empty
			}
		}
	}
	if *extra != "" {
		for _, p := range strings.Split(*extra, ",") {
			kv := strings.SplitN(p, "=", 2)
			overlay[kv[0]] = kv[1]
		}
	}
	js, _ := json.MarshalIndent(map[string]interface{}{"Replace": overlay}, "", " ")
	if err := os.WriteFile(filepath.Join(*out, "overlay.json"), js, 0o644); err != nil {
		fatal(err)
	}
	fmt.Printf("instrument: %d files in overlay -> %s\n", len(overlay), filepath.Join(*out, "overlay.json"))
}

func fatal(err error) {
	fmt.Fprintln(os.Stderr, "instrument:", err)
	os.Exit(2)
}

func rewriteFile(path string) (*fileRW, error) {
	fset := token.NewFileSet()
	f, err := parser.ParseFile(fset, path, nil, parser.ParseComments)
	if err != nil {
		return nil, err
	}
	rw := &fileRW{fset: fset, f: f, name: filepath.Base(path), imports: map[string]string{}, need: map[string]bool{}}
	for _, im := range f.Imports {
		p, _ := strconv.Unquote(im.Path.Value)
		name := filepath.Base(p)
		if im.Name != nil {
			name = im.Name.Name
		}
		rw.imports[name] = p
	}
	rw.stripComments()
	rw.rewriteSelectors()
	rw.rewriteStmts()
	if *fine && rw.name == "nocopy_linkbuffer.go" {
		rw.finePoints()
	}
	if rw.changed {
		rw.fixImports()
	}
	return rw, nil
}

// keep only comments before the package clause (license, build constraints) and //go: directive docs
func (rw *fileRW) stripComments() {
	var keep []*ast.CommentGroup
	for _, cg := range rw.f.Comments {
		if cg.End() < rw.f.Package {
			keep = append(keep, cg)
			continue
		}
	}
	for _, d := range rw.f.Decls {
		var doc *ast.CommentGroup
		switch d := d.(type) {
		case *ast.FuncDecl:
			doc = d.Doc
		case *ast.GenDecl:
			doc = d.Doc
		}
		if doc != nil {
			for _, c := range doc.List {
				if strings.HasPrefix(c.Text, "//go:") {
					keep = append(keep, doc)
					break
				}
			}
		}
	}
	sort.Slice(keep, func(i, j int) bool { return keep[i].Pos() < keep[j].Pos() })
	rw.f.Comments = keep
}

func (rw *fileRW) rewriteSelectors() {
	ast.Inspect(rw.f, func(n ast.Node) bool {
		se, ok := n.(*ast.SelectorExpr)
		if !ok {
			return true
		}
		id, ok := se.X.(*ast.Ident)
		if !ok || id.Obj != nil {
			return true
		}
		path, ok := rw.imports[id.Name]
		if !ok {
			return true
		}
		m, ok := rewrites[path]
		if !ok {
			return true
		}
		t, ok := m[se.Sel.Name]
		if !ok {
			t, ok = m["*"]
			if !ok {
				return true
			}
		}
		id.Name = shimNames[t.pkg]
		if t.name != "" {
			se.Sel.Name = t.name
		}
		rw.need[t.pkg] = true
		rw.changed = true
		return true
	})
}

func (rw *fileRW) fixImports() {
	// which original import names are still referenced?
	used := map[string]bool{}
	ast.Inspect(rw.f, func(n ast.Node) bool {
		if se, ok := n.(*ast.SelectorExpr); ok {
			if id, ok := se.X.(*ast.Ident); ok && id.Obj == nil {
				used[id.Name] = true
			}
		}
		return true
	})
	for _, d := range rw.f.Decls {
		gd, ok := d.(*ast.GenDecl)
		if !ok || gd.Tok != token.IMPORT {
			continue
		}
		for _, sp := range gd.Specs {
			is := sp.(*ast.ImportSpec)
			p, _ := strconv.Unquote(is.Path.Value)
			name := filepath.Base(p)
			if is.Name != nil {
				name = is.Name.Name
			}
			if name == "_" || name == "." {
				continue
			}
			if !used[name] {
				is.Name = ast.NewIdent("_")
			}
		}
	}
	// add shim imports as a new decl right after the existing imports
	var paths []string
	for p := range rw.need {
		paths = append(paths, p)
	}
	sort.Strings(paths)
	if len(paths) == 0 {
		return
	}
	gd := &ast.GenDecl{Tok: token.IMPORT, Lparen: 1, Rparen: 1}
	for _, p := range paths {
		gd.Specs = append(gd.Specs, &ast.ImportSpec{Name: ast.NewIdent(shimNames[p]), Path: &ast.BasicLit{Kind: token.STRING, Value: strconv.Quote(p)}})
	}
	// insert after last import decl
	idx := 0
	for i, d := range rw.f.Decls {
		if g, ok := d.(*ast.GenDecl); ok && g.Tok == token.IMPORT {
			idx = i + 1
		}
	}
	decls := append([]ast.Decl{}, rw.f.Decls[:idx]...)
	decls = append(decls, gd)
	decls = append(decls, rw.f.Decls[idx:]...)
	rw.f.Decls = decls
}

func (rw *fileRW) pos(n ast.Node) string {
	p := rw.fset.Position(n.Pos())
	return fmt.Sprintf("%s:%d", rw.name, p.Line)
}

func (rw *fileRW) tmp(prefix string) *ast.Ident {
	rw.tmpN++
	return ast.NewIdent(fmt.Sprintf("_v%s%d", prefix, rw.tmpN))
}

func vcall(fn string, args ...ast.Expr) *ast.CallExpr {
	return &ast.CallExpr{Fun: &ast.SelectorExpr{X: ast.NewIdent("vsched"), Sel: ast.NewIdent(fn)}, Args: args}
}

func str(s string) ast.Expr { return &ast.BasicLit{Kind: token.STRING, Value: strconv.Quote(s)} }

// rewriteStmts handles go statements, channel operations and select.
func (rw *fileRW) rewriteStmts() {
	type owner struct {
		get func() []ast.Stmt
		set func([]ast.Stmt)
	}
	var owners []owner
	ast.Inspect(rw.f, func(n ast.Node) bool {
		switch n := n.(type) {
		case *ast.BlockStmt:
			owners = append(owners, owner{func() []ast.Stmt { return n.List }, func(l []ast.Stmt) { n.List = l }})
		case *ast.CaseClause:
			owners = append(owners, owner{func() []ast.Stmt { return n.Body }, func(l []ast.Stmt) { n.Body = l }})
		case *ast.CommClause:
			owners = append(owners, owner{func() []ast.Stmt { return n.Body }, func(l []ast.Stmt) { n.Body = l }})
		}
		return true
	})
	for i := len(owners) - 1; i >= 0; i-- {
		o := owners[i]
		var outl []ast.Stmt
		ch := false
		for _, s := range o.get() {
			ns, c := rw.stmt(s)
			if c {
				ch = true
			}
			outl = append(outl, ns...)
		}
		if ch {
			o.set(outl)
			rw.changed = true
			rw.need["verif/engine/vsched"] = true
		}
	}
}

// directExprs calls f for every expression directly evaluated by s (not nested statement lists or func literals).
func directInspect(s ast.Stmt, f func(ast.Node) bool) {
	var roots []ast.Node
	switch s := s.(type) {
	case *ast.ExprStmt:
		roots = append(roots, s.X)
	case *ast.AssignStmt:
		for _, e := range s.Lhs {
			roots = append(roots, e)
		}
		for _, e := range s.Rhs {
			roots = append(roots, e)
		}
	case *ast.ReturnStmt:
		for _, e := range s.Results {
			roots = append(roots, e)
		}
	case *ast.SendStmt:
		roots = append(roots, s.Chan, s.Value)
	case *ast.DeclStmt:
		roots = append(roots, s.Decl)
	case *ast.IfStmt:
		if s.Init != nil {
			roots = append(roots, s.Init)
		}
		roots = append(roots, s.Cond)
	case *ast.SwitchStmt:
		if s.Init != nil {
			roots = append(roots, s.Init)
		}
		if s.Tag != nil {
			roots = append(roots, s.Tag)
		}
	case *ast.TypeSwitchStmt:
		if s.Init != nil {
			roots = append(roots, s.Init)
		}
		roots = append(roots, s.Assign)
	case *ast.IncDecStmt:
		roots = append(roots, s.X)
	case *ast.DeferStmt:
		roots = append(roots, s.Call)
	case *ast.ForStmt:
		if s.Init != nil {
			roots = append(roots, s.Init)
		}
		if s.Cond != nil {
			roots = append(roots, s.Cond)
		}
		if s.Post != nil {
			roots = append(roots, s.Post)
		}
	case *ast.RangeStmt:
		roots = append(roots, s.X)
	}
	for _, r := range roots {
		ast.Inspect(r, func(n ast.Node) bool {
			if _, ok := n.(*ast.FuncLit); ok {
				return false
			}
			if n == nil {
				return true
			}
			return f(n)
		})
	}
}

func pureChanExpr(e ast.Expr) bool {
	switch e := e.(type) {
	case *ast.Ident:
		return true
	case *ast.SelectorExpr:
		return pureChanExpr(e.X)
	case *ast.ParenExpr:
		return pureChanExpr(e.X)
	case *ast.CallExpr:
		// ctx.Done() is idempotent
		if se, ok := e.Fun.(*ast.SelectorExpr); ok && se.Sel.Name == "Done" && len(e.Args) == 0 {
			return pureChanExpr(se.X)
		}
	}
	return false
}

func (rw *fileRW) stmt(s ast.Stmt) ([]ast.Stmt, bool) {
	var label *ast.LabeledStmt
	inner := s
	if ls, ok := s.(*ast.LabeledStmt); ok {
		label = ls
		inner = ls.Stmt
	}
	res, changed := rw.stmt1(inner, label != nil)
	if !changed {
		return []ast.Stmt{s}, false
	}
	if label != nil {
		label.Stmt = res[0]
		res[0] = label
	}
	return res, true
}

func (rw *fileRW) stmt1(s ast.Stmt, labeled bool) ([]ast.Stmt, bool) {
	switch s := s.(type) {
	case *ast.GoStmt:
		return []ast.Stmt{rw.goStmt(s)}, true
	case *ast.SelectStmt:
		if labeled {
			rw.errs = append(rw.errs, rw.pos(s)+": labeled select")
			return nil, false
		}
		return []ast.Stmt{rw.selectStmt(s)}, true
	case *ast.ForStmt, *ast.RangeStmt:
		bad := false
		directInspect(s, func(n ast.Node) bool {
			if u, ok := n.(*ast.UnaryExpr); ok && u.Op == token.ARROW {
				bad = true
			}
			return true
		})
		if rs, ok := s.(*ast.RangeStmt); ok && false {
			_ = rs
		}
		if bad {
			rw.errs = append(rw.errs, rw.pos(s)+": channel receive in loop header")
		}
		return nil, false
	case *ast.DeferStmt:
		if id, ok := s.Call.Fun.(*ast.Ident); ok && id.Name == "close" && id.Obj == nil {
			rw.errs = append(rw.errs, rw.pos(s)+": defer close(ch)")
		}
		return nil, false
	}
	var pre []ast.Stmt
	directInspect(s, func(n ast.Node) bool {
		switch n := n.(type) {
		case *ast.UnaryExpr:
			if n.Op == token.ARROW {
				if !pureChanExpr(n.X) {
					t := rw.tmp("ch")
					pre = append(pre, &ast.AssignStmt{Lhs: []ast.Expr{t}, Tok: token.DEFINE, Rhs: []ast.Expr{n.X}})
					n.X = t
				}
				pre = append(pre, &ast.ExprStmt{X: vcall("WaitRecv", n.X)})
			}
		case *ast.CallExpr:
			if id, ok := n.Fun.(*ast.Ident); ok && id.Name == "close" && id.Obj == nil && len(n.Args) == 1 {
				if !pureChanExpr(n.Args[0]) {
					t := rw.tmp("ch")
					pre = append(pre, &ast.AssignStmt{Lhs: []ast.Expr{t}, Tok: token.DEFINE, Rhs: []ast.Expr{n.Args[0]}})
					n.Args[0] = t
				}
				pre = append(pre, &ast.ExprStmt{X: vcall("CloseNote", n.Args[0])})
			}
		}
		return true
	})
	if ss, ok := s.(*ast.SendStmt); ok {
		if !pureChanExpr(ss.Chan) {
			t := rw.tmp("ch")
			pre = append(pre, &ast.AssignStmt{Lhs: []ast.Expr{t}, Tok: token.DEFINE, Rhs: []ast.Expr{ss.Chan}})
			ss.Chan = t
		}
		pre = append(pre, &ast.ExprStmt{X: vcall("WaitSend", ss.Chan)})
	}
	if len(pre) == 0 {
		return nil, false
	}
	return append(pre, s), true
}

func (rw *fileRW) goStmt(g *ast.GoStmt) ast.Stmt {
	call := g.Call
	blk := &ast.BlockStmt{}
	fn := "Go"
	if se, ok := call.Fun.(*ast.SelectorExpr); ok && se.Sel.Name == "Wait" {
		fn = "GoDaemon" // a poller loop: allowed to stay blocked at quiescence
	}
	var fun ast.Expr = call.Fun
	if _, isLit := call.Fun.(*ast.FuncLit); !isLit || true {
		t := rw.tmp("f")
		blk.List = append(blk.List, &ast.AssignStmt{Lhs: []ast.Expr{t}, Tok: token.DEFINE, Rhs: []ast.Expr{call.Fun}})
		fun = t
	}
	var args []ast.Expr
	for _, a := range call.Args {
		if _, lit := a.(*ast.BasicLit); lit {
			args = append(args, a)
			continue
		}
		t := rw.tmp("a")
		blk.List = append(blk.List, &ast.AssignStmt{Lhs: []ast.Expr{t}, Tok: token.DEFINE, Rhs: []ast.Expr{a}})
		args = append(args, t)
	}
	inner := &ast.CallExpr{Fun: fun, Args: args, Ellipsis: call.Ellipsis}
	lit := &ast.FuncLit{Type: &ast.FuncType{Params: &ast.FieldList{}}, Body: &ast.BlockStmt{List: []ast.Stmt{&ast.ExprStmt{X: inner}}}}
	blk.List = append(blk.List, &ast.ExprStmt{X: vcall(fn, str("go@"+rw.pos(g)), lit)})
	return blk
}

func (rw *fileRW) selectStmt(s *ast.SelectStmt) ast.Stmt {
	blk := &ast.BlockStmt{}
	var cases []ast.Expr
	hasDefault := false
	// passthrough copy: shallow copies of clauses with hoisted channel temps
	pass := &ast.SelectStmt{Body: &ast.BlockStmt{}}
	sw := &ast.SwitchStmt{Body: &ast.BlockStmt{}}
	idx := 0
	for _, c := range s.Body.List {
		cc := c.(*ast.CommClause)
		if cc.Comm == nil {
			hasDefault = true
			pass.Body.List = append(pass.Body.List, &ast.CommClause{Body: cc.Body})
			sw.Body.List = append(sw.Body.List, &ast.CaseClause{Body: cc.Body})
			continue
		}
		// locate the channel expression in the comm statement
		var chp *ast.Expr
		send := false
		switch cs := cc.Comm.(type) {
		case *ast.SendStmt:
			chp = &cs.Chan
			send = true
		case *ast.ExprStmt:
			chp = &cs.X.(*ast.UnaryExpr).X
		case *ast.AssignStmt:
			chp = &cs.Rhs[0].(*ast.UnaryExpr).X
		}
		t := rw.tmp("c")
		blk.List = append(blk.List, &ast.AssignStmt{Lhs: []ast.Expr{t}, Tok: token.DEFINE, Rhs: []ast.Expr{*chp}})
		*chp = t
		if send {
			cases = append(cases, vcall("S", t))
		} else {
			cases = append(cases, vcall("R", t))
		}
		pass.Body.List = append(pass.Body.List, &ast.CommClause{Comm: cc.Comm, Body: cc.Body})
		body := append([]ast.Stmt{cc.Comm}, cc.Body...)
		sw.Body.List = append(sw.Body.List, &ast.CaseClause{List: []ast.Expr{&ast.BasicLit{Kind: token.INT, Value: strconv.Itoa(idx)}}, Body: body})
		idx++
	}
	hd := ast.NewIdent("false")
	if hasDefault {
		hd = ast.NewIdent("true")
	} else {
		sw.Body.List = append(sw.Body.List, &ast.CaseClause{Body: []ast.Stmt{&ast.ExprStmt{X: &ast.CallExpr{Fun: ast.NewIdent("panic"), Args: []ast.Expr{str("vsched: select without ready case")}}}}})
	}
	sw.Tag = vcall("Select", append([]ast.Expr{hd}, cases...)...)
	ifs := &ast.IfStmt{
		Cond: &ast.UnaryExpr{Op: token.NOT, X: vcall("Active")},
		Body: &ast.BlockStmt{List: []ast.Stmt{pass}},
		Else: &ast.BlockStmt{List: []ast.Stmt{sw}},
	}
	blk.List = append(blk.List, ifs)
	return blk
}

// finePoints inserts vsched.PlainPoint(receiver) before every statement of the *UnsafeLinkBuffer methods.
func (rw *fileRW) finePoints() {
	for _, d := range rw.f.Decls {
		fd, ok := d.(*ast.FuncDecl)
		if !ok || fd.Recv == nil || fd.Body == nil || len(fd.Recv.List) != 1 || len(fd.Recv.List[0].Names) != 1 {
			continue
		}
		st, ok := fd.Recv.List[0].Type.(*ast.StarExpr)
		if !ok {
			continue
		}
		id, ok := st.X.(*ast.Ident)
		if !ok || id.Name != "UnsafeLinkBuffer" {
			continue
		}
		recv := fd.Recv.List[0].Names[0].Name
		if recv == "_" {
			continue
		}
		rw.fineBlock(fd.Body, recv, fd.Name.Name)
		rw.changed = true
		rw.need["verif/engine/vsched"] = true
	}
}

func (rw *fileRW) fineBlock(b *ast.BlockStmt, recv, fn string) {
	var outl []ast.Stmt
	for _, s := range b.List {
		inner := s
		if ls, ok := s.(*ast.LabeledStmt); ok {
			inner = ls.Stmt
		}
		switch x := inner.(type) {
		case *ast.IfStmt:
			rw.fineIf(x, recv, fn)
		case *ast.ForStmt:
			rw.fineBlock(x.Body, recv, fn)
		case *ast.RangeStmt:
			rw.fineBlock(x.Body, recv, fn)
		case *ast.BlockStmt:
			rw.fineBlock(x, recv, fn)
		case *ast.SwitchStmt:
			for _, c := range x.Body.List {
				cc := c.(*ast.CaseClause)
				tmp := &ast.BlockStmt{List: cc.Body}
				rw.fineBlock(tmp, recv, fn)
				cc.Body = tmp.List
			}
		}
		pp := &ast.ExprStmt{X: vcall("PlainPoint", &ast.CallExpr{Fun: &ast.SelectorExpr{X: ast.NewIdent("unsafe"), Sel: ast.NewIdent("Pointer")}, Args: []ast.Expr{ast.NewIdent(recv)}}, str(fn+"@"+rw.pos(s)))}
		if ls, ok := s.(*ast.LabeledStmt); ok {
			// keep the label on the inserted point so jumps also pass it
			st := ls.Stmt
			ls.Stmt = pp
			outl = append(outl, ls, st)
		} else {
			outl = append(outl, pp, s)
		}
	}
	b.List = outl
	if _, ok := rw.imports["unsafe"]; !ok {
		rw.needUnsafe()
	}
}

func (rw *fileRW) fineIf(x *ast.IfStmt, recv, fn string) {
	rw.fineBlock(x.Body, recv, fn)
	switch e := x.Else.(type) {
	case *ast.BlockStmt:
		rw.fineBlock(e, recv, fn)
	case *ast.IfStmt:
		rw.fineIf(e, recv, fn)
	}
}

func (rw *fileRW) needUnsafe() {
	rw.imports["unsafe"] = "unsafe"
	gd := &ast.GenDecl{Tok: token.IMPORT, Specs: []ast.Spec{&ast.ImportSpec{Path: &ast.BasicLit{Kind: token.STRING, Value: `"unsafe"`}}}}
	rw.f.Decls = append([]ast.Decl{gd}, rw.f.Decls...)
}
