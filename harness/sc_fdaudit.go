package main

import (
	"fmt"
	"net"
	"strings"
	"syscall"
	"time"

	"github.com/cloudwego/netpoll"
	"verif/engine/shim/vsyscall"
	"verif/engine/vsched"
)

// ---- C15: every descriptor netpoll owns is closed exactly once, and no other (fd.audit) ----

func init() {
	register("fd.audit", func(tier string) []Variant {
		var vs []Variant
		for _, life := range []string{"convert-unix-listener", "create-tcp-listener", "create-unix-listener", "conn-register-fails", "conn-close", "conn-detach", "dial-sockopt-fails", "dial-refused", "poller-open-fails", "pollers-shrink"} {
			life := life
			vs = append(vs, Variant{Name: "lifecycle=" + life, Make: func() *vsched.Scenario { return fdAuditScenario(life) }})
		}
		return vs
	})
}

type advFd struct {
	fd       int
	dev, ino uint64
}

func fdAuditScenario(life string) *vsched.Scenario {
	var adv []advFd
	var notes []string
	sc := &vsched.Scenario{Name: "fd.audit", Horizon: 8000}
	sc.Body = func() {
		adv, notes = nil, nil
		netpoll.VerifReset(1)
		srvCounter++
		// the adversary: right after every close(2) netpoll issues, somebody else opens a descriptor
		// (it gets the lowest free number, i.e. usually the one just closed) and keeps it
		vsyscall.AfterClose = func(int) {
			fd := vsyscall.HOpenAny()
			d, i, _ := vsyscall.FdIdentity(fd)
			adv = append(adv, advFd{fd, d, i})
		}
		defer func() { vsyscall.AfterClose = nil }()
		switch life {
		case "convert-unix-listener", "create-unix-listener", "create-tcp-listener":
			var nl netpoll.Listener
			var err error
			name := fmt.Sprintf("@verif-audit-%d-%d", syscall.Getpid(), srvCounter)
			switch life {
			case "convert-unix-listener":
				var l net.Listener
				l, err = net.Listen("unix", name)
				if err == nil {
					nl, err = netpoll.ConvertListener(l)
				}
			case "create-unix-listener":
				nl, err = netpoll.CreateListener("unix", name)
			case "create-tcp-listener":
				nl, err = netpoll.CreateListener("tcp", "127.0.0.1:0")
			}
			if err != nil {
				notes = append(notes, "setup failed: "+err.Error())
				return
			}
			// the descriptor netpoll works with is the duplicate it took of the net.Listener
			lfd := nl.Fd()
			vsyscall.Register(lfd, "listener-dup")
			nl.Close()
			if _, _, open := vsyscall.FdIdentity(lfd); !open {
				// closed through the os.File that owns it (not visible to the syscall shim); a raw close
				// by netpoll would already have been counted, so a double close shows up as 2
				vsyscall.ClosedExternally(lfd)
				// the number is free now: somebody else gets it (the adversary hook only sees closes
				// that go through the shim), then the owner closes its listener once more - the usual
				// Shutdown + deferred Close. That second Close must not touch the number again.
				fd := vsyscall.HOpenAny()
				d, i, _ := vsyscall.FdIdentity(fd)
				adv = append(adv, advFd{fd, d, i})
			}
			nl.Close()
		case "conn-close", "conn-detach", "conn-register-fails":
			a, b := vsyscall.HSocketpair(0)
			vsyscall.Adopt(a)
			if life == "conn-register-fails" {
				vsyscall.L().Dev.CtlFail = true
				vsyscall.L().Dev.CtlFailFd = a
			}
			c, err := netpoll.VerifFDConn(a, "unix")
			if err != nil {
				notes = append(notes, "init failed: "+err.Error())
			} else if life == "conn-detach" {
				c.(interface{ Detach() error }).Detach()
				vsyscall.Disown(a)
			} else {
				c.Close()
			}
			vsyscall.HClose(b)
		case "dial-sockopt-fails", "dial-refused":
			if life == "dial-sockopt-fails" {
				vsyscall.L().Dev.SockoptFail = true
			}
			_, err := netpoll.DialConnection("tcp", fmt.Sprintf("127.0.0.1:%d", vsyscall.HClosedPort()), time.Second)
			if err != nil {
				notes = append(notes, "dial: "+err.Error())
			}
		case "poller-open-fails":
			vsyscall.L().Dev.CtlFail = true
			vsyscall.L().Dev.PollCreateFail = true
			func() {
				defer func() {
					if p := recover(); p != nil {
						if p == vsched.AbortSentinel {
							panic(p)
						}
						notes = append(notes, "Initialize panicked: "+fmt.Sprint(p))
					}
				}()
				netpoll.Initialize()
			}()
		case "pollers-shrink":
			netpoll.VerifReset(2)
			netpoll.Initialize()
			vsched.Settle("two loops")
			netpoll.SetNumLoops(1)
			netpoll.Initialize()
			vsched.Settle("one loop")
		}
		vsched.Settle("end")
	}
	sc.Outcome = func(ex *vsched.Exec) string { return strings.Join(notes, ";") + fmt.Sprintf("|adv=%d", len(adv)) }
	sc.Check = func(ex *vsched.Exec) []vsched.Violation {
		vs := baseChecks("C15", ex, false)
		add := func(sig, msg string) { vs = append(vs, vsched.Violation{Sig: "C15 " + sig, Msg: msg}) }
		if ex.End != vsched.EndQuiescent {
			return vs
		}
		// NOTE: Check runs after the ledger's teardown closed what was still open, so the adversary
		// descriptors are judged from what the ledger recorded during the run
		led := vsyscall.L()
		running := map[int]bool{}
		_, _, polls := netpoll.VerifManagerState()
		for _, p := range polls {
			e, w := netpoll.VerifPollFds(p)
			running[e], running[w] = true, true
		}
		for _, r := range led.Recs {
			if r.Owner != "netpoll" {
				continue
			}
			closes := r.Closes
			leaked := false
			if closes < 0 {
				closes = -1 - closes
				leaked = true
			}
			// the poller pool is process-wide: the loops that are still running keep their descriptors
			expectOpen := running[r.Fd] && (r.Kind == "epoll" || r.Kind == "eventfd")
			if life == "conn-detach" {
				expectOpen = expectOpen || strings.HasPrefix(r.Kind, "pair")
			}
			if leaked && closes == 0 && !expectOpen {
				add("leak kind="+r.Kind+" life="+life, fmt.Sprintf("descriptor %d (%s) that netpoll owns was never closed", r.Fd, r.Kind))
			}
		}
		if life == "pollers-shrink" {
			open := 0
			for _, r := range led.Recs {
				if (r.Kind == "epoll" || r.Kind == "eventfd") && r.Closes < 0 {
					open++
				}
			}
			if open != 2 {
				add("shrink-open-descriptors", fmt.Sprintf("after shrinking to one loop %d poller descriptors are open, want 2", open))
			}
		}
		for _, a := range advDestroyed {
			add("foreign-descriptor-closed life="+life, a)
		}
		return vs
	}
	// the adversary check has to run before teardown: do it at the very end of the body via OnEnd ordering
	body := sc.Body
	sc.Body = func() {
		advDestroyed = nil
		body()
		for _, a := range adv {
			d, i, ok := vsyscall.FdIdentity(a.fd)
			if !ok {
				advDestroyed = append(advDestroyed, fmt.Sprintf("descriptor %d, opened by another owner right after netpoll closed that number, was closed by netpoll code afterwards (second close of the same number)", a.fd))
			} else if d != a.dev || i != a.ino {
				advDestroyed = append(advDestroyed, fmt.Sprintf("descriptor %d of another owner was replaced (closed and reopened) behind its back", a.fd))
			}
		}
	}
	return sc
}

var advDestroyed []string
