#!/usr/bin/env python3
# usage: show.py <worker> <scenario> <variant> <pb> <db> [sig-substring] [maxlines]
import json,subprocess,sys
w,sc,v,pb,db=sys.argv[1:6]
sub=sys.argv[6] if len(sys.argv)>6 else None
maxl=int(sys.argv[7]) if len(sys.argv)>7 else 400
out=subprocess.run([w,'-scenario',sc,'-variant',v,'-pb',pb,'-db',db,'-deadline','120'],capture_output=True,text=True)
if out.returncode!=0: print(out.stdout[-3000:],out.stderr[-3000:]); sys.exit(1)
r=json.loads(out.stdout)['report']
print({k:r[k] for k in ['Execs','Pruned','States','PBDone','Exhaustive','Ends','Nondet','MaxSteps','MaxThreads','WallS','CapHit']}, len(r['Outcomes']),'outcomes')
for f in r['Found'] or []:
    print('FOUND',f['Sig'],'|',f['Msg'][:400].replace('\n',' / '),'count',f['Count'],'pb',f['PB'],'db',f['DB'])
    if sub is not None and sub in f['Sig']:
        tr=f['Trace']
        if len(tr)>maxl: tr=tr[:maxl//2]+['...']+tr[-maxl//2:]
        print('\n'.join(x[:170] for x in tr))
        print('LOG',f['Log'])
