#!/bin/bash
set -e
cd "$(dirname "$0")"
export GOFLAGS=-mod=mod GOPROXY=off GOSUMDB=off GOTOOLCHAIN=local
mkdir -p bin work evidence
(cd engine && go build -o ../bin/instrument ./cmd/instrument && go build -o ../bin/check ./cmd/check)
echo setup ok
