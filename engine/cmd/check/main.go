// check is the per-property driver: instrument /repo's working tree, build
// the worker, run the property's scenario variants in parallel worker
// processes, aggregate, write evidence, classify violations.
package main

import (
	"crypto/sha1"
	"encoding/json"
	"fmt"
	"os"
	"os/exec"
	"path/filepath"
	"sort"
	"strconv"
	"strings"
	"sync"
	"time"
)

// verif is the framework root: the directory above bin/ (so a snapshot of /verif runs on its own files)
var verif = func() string {
	if exe, err := os.Executable(); err == nil {
		if d := filepath.Dir(filepath.Dir(exe)); d != "" {
			if _, err := os.Stat(filepath.Join(d, "harness")); err == nil {
				return d
			}
		}
	}
	return "/verif"
}()

type Plan struct {
	Scenario string
	PB, DB   int
	Fine     bool
	Race     bool
	Kind     string // "sched" (default) or "seq"
	NoIter   bool   // explore directly at the bound (deviation budget not tied to the preemption bound)
	Weight   float64
}

type PropPlan struct {
	Quick, Thorough         []Plan
	QuickSecs, ThoroughSecs int
	Assumptions             []string
}

type Found struct {
	Sig     string
	Msg     string
	Choices []int32
	Trace   []string
	Log     []string
	PB, DB  int
	Count   int64
}

type Report struct {
	Scenario    string
	Params      string
	Execs       int64
	Pruned      int64
	Steps       int64
	States      int64
	PBDone      int
	DBDone      int
	Exhaustive  bool
	Ends        map[string]int64
	Outcomes    map[string]int64
	Found       []*Found
	Nondet      string
	Samples     [][]string
	MaxSteps    int
	MaxThreads  int
	WallS       float64
	CapHit      string
	MaxPBUsed   int
	TotalPoints int64
	Extra       map[string]interface{}
}

type WorkerOut struct {
	Scenario string  `json:"scenario"`
	Variant  string  `json:"variant"`
	Report   *Report `json:"report"`
}

type ReplayFile struct {
	Property string   `json:"property"`
	Scenario string   `json:"scenario"`
	Variant  string   `json:"variant"`
	Sig      string   `json:"sig"`
	Msg      string   `json:"msg"`
	Choices  []int32  `json:"choices"`
	Log      []string `json:"log"`
	Trace    []string `json:"trace"`
	Tier     string   `json:"tier"`
	Fine     bool     `json:"fine"`
	Race     bool     `json:"race"`
}

type Known struct {
	Findings []struct {
		Property string `json:"property"`
		Sig      string `json:"sig"`
		What     string `json:"what"`
	} `json:"findings"`
	Fixed []struct {
		Property string `json:"property"`
		Commit   string `json:"commit"`
		What     string `json:"what"`
	} `json:"fixed"`
}

// repoRoot is the netpoll tree under test (/repo unless VERIF_REPO points at a scratch worktree).
func repoRoot() string {
	if r := os.Getenv("VERIF_REPO"); r != "" {
		return r
	}
	return "/repo"
}

func env() []string {
	return append(os.Environ(), "GOFLAGS=-mod=mod", "GOPROXY=off", "GOSUMDB=off", "GOTOOLCHAIN=local", "CGO_ENABLED=1")
}

func run(dir string, name string, args ...string) (string, error) {
	cmd := exec.Command(name, args...)
	cmd.Dir = dir
	cmd.Env = env()
	b, err := cmd.CombinedOutput()
	return string(b), err
}

func die(code int, f string, a ...interface{}) {
	fmt.Fprintf(os.Stderr, "check: "+f+"\n", a...)
	os.Exit(code)
}

// buildWorker instruments /repo and builds the worker binary for the given options.
func buildWorker(work string, fine, race bool) string {
	tag := "w"
	if fine {
		tag += "-fine"
	}
	if race {
		tag += "-race"
	}
	ovDir := filepath.Join(work, "ov-"+tag)
	os.RemoveAll(ovDir)
	os.MkdirAll(ovDir, 0o755)
	args := []string{"-out", ovDir, "-repo", repoRoot()}
	if fine {
		args = append(args, "-fine")
	}
	if out, err := run(verif, filepath.Join(verif, "bin", "instrument"), args...); err != nil {
		die(2, "instrument failed: %v\n%s", err, out)
	}
	os.WriteFile(filepath.Join(verif, "harness", "go.sum"), mustRead(filepath.Join(repoRoot(), "go.sum")), 0o644)
	bin := filepath.Join(work, "verif"+tag)
	bargs := []string{"build", "-tags", "verif", "-overlay", filepath.Join(ovDir, "overlay.json"), "-o", bin}
	if repoRoot() != "/repo" {
		// build against another tree: same go.mod with the replace directive pointed at it
		gm := strings.Replace(string(mustRead(filepath.Join(verif, "harness", "go.mod"))), "=> /repo", "=> "+repoRoot(), 1)
		gm = strings.Replace(gm, "=> ../engine", "=> "+filepath.Join(verif, "engine"), 1)
		mf := filepath.Join(work, "go.mod")
		os.WriteFile(mf, []byte(gm), 0o644)
		os.WriteFile(filepath.Join(work, "go.sum"), mustRead(filepath.Join(repoRoot(), "go.sum")), 0o644)
		bargs = append(bargs, "-modfile", mf)
	}
	if race {
		bargs = append(bargs, "-race")
	}
	bargs = append(bargs, ".")
	if out, err := run(filepath.Join(verif, "harness"), "go", bargs...); err != nil {
		die(2, "build of instrumented netpoll + harness failed (the tree under /repo must compile): %v\n%s", err, out)
	}
	return bin
}

func mustRead(p string) []byte {
	b, err := os.ReadFile(p)
	if err != nil {
		die(2, "%v", err)
	}
	return b
}

func main() {
	if len(os.Args) < 2 {
		die(2, "usage: check <property> [--tier quick|thorough] [--replay file] [--secs n]")
	}
	prop := os.Args[1]
	tier := os.Getenv("VERIF_TIER")
	if tier == "" {
		tier = "quick"
	}
	replay := ""
	secsOverride := 0
	var planOverride []Plan
	for i := 2; i < len(os.Args); i++ {
		switch os.Args[i] {
		case "--tier":
			i++
			tier = os.Args[i]
		case "--replay":
			i++
			replay = os.Args[i]
		case "--secs":
			i++
			secsOverride, _ = strconv.Atoi(os.Args[i])
		case "--plan":
			// debugging aid: "scenario:pb:db[:race][:fine][:noiter]" replaces the registered plan;
			// evidence then goes to work/ instead of evidence/
			i++
			f := strings.Split(os.Args[i], ":")
			p := Plan{Scenario: f[0]}
			if len(f) > 1 {
				p.PB, _ = strconv.Atoi(f[1])
			}
			if len(f) > 2 {
				p.DB, _ = strconv.Atoi(f[2])
			}
			for _, x := range f[3:] {
				switch x {
				case "race":
					p.Race = true
				case "fine":
					p.Fine = true
				case "noiter":
					p.NoIter = true
				case "seq":
					p.Kind = "seq"
				}
			}
			planOverride = append(planOverride, p)
		}
	}
	seed, _ := strconv.Atoi(os.Getenv("VERIF_SEED"))
	pp, ok := plans[prop]
	if !ok {
		die(2, "no check registered for property %s", prop)
	}
	work := filepath.Join(verif, "work", prop+"-"+tier)
	if replay != "" {
		work = filepath.Join(verif, "work", prop+"-replay")
	}
	os.RemoveAll(work)
	os.MkdirAll(work, 0o755)
	defer func() {
		// keep replays, drop binaries and overlays
	}()

	if replay != "" {
		var rf ReplayFile
		if err := json.Unmarshal(mustRead(replay), &rf); err != nil {
			die(2, "bad replay file: %v", err)
		}
		bin := buildWorker(work, rf.Fine, rf.Race)
		cmd := exec.Command(bin, "-replay", replay)
		cmd.Env = append(env(), "GOMAXPROCS=1")
		cmd.Stdout = os.Stdout
		cmd.Stderr = os.Stderr
		err := cmd.Run()
		os.RemoveAll(work)
		if err != nil {
			if ee, ok := err.(*exec.ExitError); ok {
				os.Exit(ee.ExitCode())
			}
			os.Exit(2)
		}
		return
	}

	start := time.Now()
	pl := pp.Quick
	secs := pp.QuickSecs
	if tier == "thorough" {
		pl = pp.Thorough
		secs = pp.ThoroughSecs
	}
	if secsOverride > 0 {
		secs = secsOverride
	}
	evidenceDir := filepath.Join(verif, "evidence")
	if planOverride != nil {
		pl = planOverride
		evidenceDir = filepath.Join(verif, "work")
	}
	type job struct {
		plan    Plan
		bin     string
		variant string
		out     *WorkerOut
		err     string
		secs    int
	}
	var jobs []*job
	bins := map[string]string{}
	for _, p := range pl {
		key := fmt.Sprint(p.Fine, p.Race)
		if bins[key] == "" {
			bins[key] = buildWorker(work, p.Fine, p.Race)
		}
		bin := bins[key]
		out, err := run(work, bin, "-list", "-scenario", p.Scenario, "-tier", tier)
		if err != nil {
			die(2, "listing variants: %v\n%s", err, out)
		}
		n := 0
		for _, l := range strings.Split(strings.TrimSpace(out), "\n") {
			f := strings.SplitN(l, "\t", 2)
			if len(f) == 2 && f[0] == p.Scenario {
				jobs = append(jobs, &job{plan: p, bin: bin, variant: f[1]})
				n++
			}
		}
		if n == 0 {
			die(2, "scenario %s has no variants", p.Scenario)
		}
	}
	buildS := time.Since(start).Seconds()
	// time budget: jobs share 16 worker slots
	par := 16
	remaining := float64(secs) - buildS
	if remaining < 10 {
		remaining = 10
	}
	deadlineAll := time.Now().Add(time.Duration(remaining) * time.Second)
	var jobsLeft int32 = int32(len(jobs))
	var muLeft sync.Mutex
	// each job's own deadline is fixed when it starts: the time left is shared by the
	// rounds still to run, so shards that finish early leave their time to later ones
	jobSecs := func() int {
		muLeft.Lock()
		defer muLeft.Unlock()
		left := time.Until(deadlineAll).Seconds()
		rounds := (int(jobsLeft) + par - 1) / par
		if rounds < 1 {
			rounds = 1
		}
		jobsLeft--
		per := int(left / float64(rounds))
		if per < 3 {
			per = 3
		}
		return per
	}
	runJobs := func(list []*job, fixedSecs int) {
		var wg sync.WaitGroup
		sem := make(chan struct{}, par)
		for i, j := range list {
			wg.Add(1)
			sem <- struct{}{}
			go func(i int, j *job) {
				defer wg.Done()
				defer func() { <-sem }()
				if fixedSecs > 0 {
					j.secs = fixedSecs
				} else {
					j.secs = jobSecs()
				}
				j.err, j.out = "", nil
				runJob(work, tier, i, j.plan, j.bin, j.variant, j.secs, &j.err, &j.out)
			}(i, j)
		}
		wg.Wait()
	}
	runJobs(jobs, 0)
	// second phase: shards that were cut off by their share of the time get what is left
	var capped []*job
	for _, j := range jobs {
		if j.err == "" && j.out != nil && !j.out.Report.Exhaustive && j.out.Report.Nondet == "" {
			capped = append(capped, j)
		}
	}
	if left := int(time.Until(deadlineAll).Seconds()); len(capped) > 0 && left >= 8 {
		rounds := (len(capped) + par - 1) / par
		per := left / rounds
		if per < 8 {
			// too many cut-off shards for everybody to get a useful share: the time that is left
			// goes to as many of them (in shard order) as can have 8 s each
			n := par * (left / 8)
			if n < len(capped) {
				capped = capped[:n]
			}
			rounds = (len(capped) + par - 1) / par
			per = left / rounds
		}
		if per >= 8 {
			jobsLeft = 0
			runJobs(capped, per)
		}
	}

	// aggregate
	known := Known{}
	if b, err := os.ReadFile(filepath.Join(verif, "known_findings.json")); err == nil {
		json.Unmarshal(b, &known)
	}
	isKnown := func(sig string) (string, bool) {
		for _, k := range known.Findings {
			if k.Property == prop && k.Sig == sig {
				return k.What, true
			}
		}
		return "", false
	}
	var states, transitions, execs, pruned int64
	outcomes := 0
	exhaustive := true
	var caps []string
	var samples []interface{}
	perScenario := map[string]map[string]interface{}{}
	var broken []string
	type viol struct {
		j *job
		f *Found
	}
	var viols []viol
	knownPrinted := map[string]bool{}
	minPB := 1 << 30
	for _, j := range jobs {
		if j.err != "" {
			broken = append(broken, fmt.Sprintf("%s [%s]: %s", j.plan.Scenario, j.variant, j.err))
			continue
		}
		r := j.out.Report
		if r.Nondet != "" {
			broken = append(broken, fmt.Sprintf("%s [%s]: NONDETERMINISM: %s", j.plan.Scenario, j.variant, r.Nondet))
			continue
		}
		states += r.States
		transitions += r.Steps
		execs += r.Execs
		pruned += r.Pruned
		outcomes += len(r.Outcomes)
		if !r.Exhaustive {
			exhaustive = false
			caps = append(caps, fmt.Sprintf("%s[%s]: %s after bound %d", j.plan.Scenario, j.variant, r.CapHit, r.PBDone))
		}
		if r.PBDone < minPB {
			minPB = r.PBDone
		}
		ps := perScenario[j.plan.Scenario]
		if ps == nil {
			ps = map[string]interface{}{"variants": 0, "executions": int64(0), "states": int64(0), "outcomes": 0, "pb": j.plan.PB, "db": j.plan.DB}
			perScenario[j.plan.Scenario] = ps
		}
		ps["variants"] = ps["variants"].(int) + 1
		ps["executions"] = ps["executions"].(int64) + r.Execs
		ps["states"] = ps["states"].(int64) + r.States
		ps["outcomes"] = ps["outcomes"].(int) + len(r.Outcomes)
		if len(samples) < 4 && len(r.Samples) > 0 {
			samples = append(samples, map[string]interface{}{"scenario": j.plan.Scenario, "variant": j.variant, "execution": r.Samples[len(r.Samples)-1]})
		}
		for _, f := range r.Found {
			if !strings.HasPrefix(f.Sig, prop+" ") {
				continue // a verdict about another property (shared scenario): reported by that property's check
			}
			if what, ok := isKnown(f.Sig); ok {
				if !knownPrinted[f.Sig] {
					fmt.Printf("KNOWN-FINDING: property=%s %s [%s]\n", prop, what, f.Sig)
					knownPrinted[f.Sig] = true
				}
				continue
			}
			viols = append(viols, viol{j, f})
		}
	}
	if len(broken) > 0 {
		for _, b := range broken {
			fmt.Fprintln(os.Stderr, "check: BROKEN:", b)
		}
		os.RemoveAll(work)
		os.Exit(2)
	}
	// write replay files for unknown violations (one per signature)
	os.MkdirAll(filepath.Join(verif, "work", "replays"), 0o755)
	printed := map[string]bool{}
	nviol := 0
	for _, v := range viols {
		if printed[v.f.Sig] {
			continue
		}
		printed[v.f.Sig] = true
		nviol++
		rf := ReplayFile{Property: prop, Scenario: v.j.plan.Scenario, Variant: v.j.variant, Sig: v.f.Sig, Msg: v.f.Msg, Choices: v.f.Choices, Log: v.f.Log, Trace: v.f.Trace, Tier: tier, Fine: v.j.plan.Fine, Race: v.j.plan.Race}
		js, _ := json.MarshalIndent(rf, "", " ")
		h := sha1.Sum([]byte(v.f.Sig + v.j.variant))
		path := filepath.Join(verif, "work", "replays", fmt.Sprintf("%s-%x.json", prop, h[:6]))
		os.WriteFile(path, js, 0o644)
		fmt.Printf("violation: %s\n  scenario %s [%s], %d preemptions, %d deviations, seen in %d executions\n  %s\n", v.f.Sig, v.j.plan.Scenario, v.j.variant, v.f.PB, v.f.DB, v.f.Count, firstLine(v.f.Msg))
		fmt.Printf("VIOLATION property=%s replay=%s\n", prop, path)
	}
	if minPB == 1<<30 {
		minPB = -1
	}
	boundKey := "preemption_bound_completed_all_variants"
	rule := "every execution is the real (instrumented) implementation run under the controlled scheduler; states = distinct happens-before states; transitions = scheduler steps executed; a variant is one parameter combination of a scenario driver"
	if pl[0].Kind == "seq" {
		boundKey = "depth_completed_all_shards"
		rule = "explicit-state BFS over operation sequences on real objects: every transition replays the history on a fresh implementation object and on the reference model; states = distinct canonical implementation states; a variant (shard) is one configuration x first operation"
	}
	ev := map[string]interface{}{
		"property_id": prop,
		"tier":        tier,
		"seed":        seed,
		"level":       "model_checking",
		"coverage": map[string]interface{}{
			"states":                           max64(states, 1),
			"transitions":                      max64(transitions, 1),
			"traces_validated_against_impl":    execs,
			"samples":                          samples,
			"exhaustive":                       exhaustive,
			"executions":                       execs,
			"executions_pruned_by_state_cache": pruned,
			"distinct_outcomes":                outcomes,
			"variants":                         len(jobs),
			boundKey:                           minPB,
			"caps_hit":                         caps,
			"per_scenario":                     perScenario,
			"rule":                             rule,
			"known_findings_reported":          len(knownPrinted),
		},
		"assumptions": pp.Assumptions,
		"wall_s":      time.Since(start).Seconds(),
		"violations":  nviol,
	}
	js, _ := json.MarshalIndent(ev, "", " ")
	os.MkdirAll(evidenceDir, 0o755)
	os.WriteFile(filepath.Join(evidenceDir, prop+".json"), js, 0o644)
	fmt.Printf("check %s tier=%s: %d variants, %d executions (%d pruned), %d states, %d steps, %d outcome classes, exhaustive=%v, %.1fs\n",
		prop, tier, len(jobs), execs, pruned, states, transitions, outcomes, exhaustive, time.Since(start).Seconds())
	if os.Getenv("VERIF_KEEP_WORK") == "" { // debugging aid: keep the instrumented overlay and the worker binaries
		os.RemoveAll(work)
	}
	if nviol > 0 {
		os.Exit(1)
	}
}

func runJob(work, tier string, i int, plan Plan, bin, variant string, secs int, jerr *string, jout **WorkerOut) {
	outf := filepath.Join(work, fmt.Sprintf("out-%d-%d.json", i, time.Now().UnixNano()%1000000))
	args := []string{"-scenario", plan.Scenario, "-variant", variant, "-tier", tier,
		"-pb", strconv.Itoa(plan.PB), "-db", strconv.Itoa(plan.DB), "-deadline", strconv.Itoa(secs), "-out", outf}
	if plan.NoIter {
		args = append(args, "-iterate=false")
	}
	cmd := exec.Command(bin, args...)
	cmd.Dir = work
	cmd.Env = append(env(), "GOMAXPROCS=1", "GORACE=halt_on_error=0 exitcode=0 log_path="+filepath.Join(work, fmt.Sprintf("race-%d", i)))
	done := make(chan struct{})
	var b []byte
	var err error
	go func() { b, err = cmd.CombinedOutput(); close(done) }()
	select {
	case <-done:
	case <-time.After(time.Duration(secs+120) * time.Second):
		cmd.Process.Kill()
		<-done
		*jerr = "worker exceeded its deadline by 120 s and was killed (hang in a non-intercepted operation?)"
		return
	}
	if err != nil {
		*jerr = fmt.Sprintf("worker failed: %v\n%s", err, tail(string(b), 4000))
		return
	}
	var wo WorkerOut
	if e := json.Unmarshal(mustRead(outf), &wo); e != nil {
		*jerr = "bad worker output: " + e.Error()
		return
	}
	*jout = &wo
}

func max64(a, b int64) int64 {
	if a > b {
		return a
	}
	return b
}

func tail(s string, n int) string {
	if len(s) > n {
		return s[len(s)-n:]
	}
	return s
}

func firstLine(s string) string {
	if i := strings.Index(s, "\n"); i >= 0 {
		return s[:i]
	}
	return s
}

var _ = sort.Strings
