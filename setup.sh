#!/bin/bash
# Builds the framework from files on disk only (offline) and warms the build cache for the three
# worker flavours (normal, -fine, -race) so that the first check does not pay for them.
set -e
cd "$(dirname "$0")"
export GOFLAGS=-mod=mod GOPROXY=off GOSUMDB=off GOTOOLCHAIN=local
mkdir -p bin work evidence
(cd engine && go build -o ../bin/instrument ./cmd/instrument && go build -o ../bin/check ./cmd/check)
cp /repo/go.sum harness/go.sum
W=work/setup-warm
rm -rf "$W"; mkdir -p "$W/n" "$W/f"
./bin/instrument -out "$PWD/$W/n" >/dev/null
./bin/instrument -fine -out "$PWD/$W/f" >/dev/null
(cd harness && go build -tags verif -overlay "$OLDPWD/$W/n/overlay.json" -o "$OLDPWD/$W/w" . ) &
(cd harness && go build -tags verif -overlay "$OLDPWD/$W/f/overlay.json" -o "$OLDPWD/$W/wf" . ) &
(cd harness && go build -race -tags verif -overlay "$OLDPWD/$W/n/overlay.json" -o "$OLDPWD/$W/wr" . ) &
wait
# smoke test: the worker lists its scenarios
"$W/w" -list | cut -f1 | sort -u | tr '\n' ' '; echo
rm -rf "$W"
echo setup ok
