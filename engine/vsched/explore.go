package vsched

import (
	"fmt"
	"runtime"
	"sort"
	"sync/atomic"
	"time"
)

// Violation is one oracle verdict about one execution.
type Violation struct {
	Sig string // stable signature (oracle clause + distinguishing facts)
	Msg string
}

// Scenario is a closed driver: Body runs as thread 0 and spawns the rest.
type Scenario struct {
	Name    string
	Params  string
	Body    func()
	Check   func(ex *Exec) []Violation // oracle; runs after the execution ended, in passthrough mode
	Outcome func(ex *Exec) string      // observable outcome class (vacuity guard); default: log
	Horizon int
}

type Options struct {
	PB, DB   int // maximum bounds; bounds are iterated 0..PB (DB fixed per iteration = min(DB, pb))
	Iterate  bool
	NoCache  bool
	Deadline time.Time
	MaxExecs int64
	Trace    bool
	Prefix   []int32 // sequential explorers: replay exactly this operation list
	MaxDepth int
}

type Found struct {
	Sig     string
	Msg     string
	Choices []int32
	Trace   []string
	Log     []string
	PB, DB  int
	Count   int64
}

type Report struct {
	Scenario    string
	Params      string
	Execs       int64
	Pruned      int64
	Steps       int64
	States      int64
	PBDone      int // largest preemption bound completed (-1: none)
	DBDone      int
	Exhaustive  bool // the requested bounds were completed without hitting a cap
	Ends        map[string]int64
	Outcomes    map[string]int64
	Found       []*Found
	Nondet      string
	Samples     [][]string
	MaxSteps    int
	MaxThreads  int
	WallS       float64
	CapHit      string
	MaxPBUsed   int
	TotalPoints int64
}

// scratch holds per-execution buffers that are reused from one execution to the next.
type scratch struct {
	objs    objTab
	choices []int32
	points  []pointRec
	costs   []uint8
	log     []Event
	threads []*Thread
}

type Explorer struct {
	scr      scratch
	sc       *Scenario
	opt      Options
	rep      *Report
	cache    *stateCache
	pb, db   int
	stop     bool
	found    map[string]*Found
	startHks []func(*Exec)
}

// PostExec, when set, contributes verdicts about the execution that just ended that do not come
// from the scenario's oracle (the race-detector harvest of the -race build).
var PostExec func(*Exec) []Violation

// NoReconfirm lists signature prefixes whose violations are not re-run for confirmation (the race
// detector reports each access pair once per process).
var NoReconfirm []string

var execStartHooks []func(*Exec)

// OnExecStart registers a hook run by the driver before every execution (shims reset their ledgers).
func OnExecStart(f func(*Exec)) { execStartHooks = append(execStartHooks, f) }

func Explore(sc *Scenario, opt Options) *Report {
	e := &Explorer{sc: sc, opt: opt, found: map[string]*Found{}}
	e.rep = &Report{Scenario: sc.Name, Params: sc.Params, Ends: map[string]int64{}, Outcomes: map[string]int64{}, PBDone: -1, DBDone: -1}
	start := time.Now()
	// determinism self-check on the default schedule
	a := e.run(nil, false, 0, 0, nil)
	a.Log = append([]Event(nil), a.Log...)
	b := e.run(nil, false, 0, 0, nil)
	if a.fp != b.fp || !sameLog(a.Log, b.Log) {
		e.rep.Nondet = fmt.Sprintf("default schedule not reproducible: fp %x vs %x; logs %v vs %v", a.fp, b.fp, logStrings(a.Log), logStrings(b.Log))
		e.rep.WallS = time.Since(start).Seconds()
		return e.rep
	}
	e.rep.Execs, e.rep.Steps = 0, 0
	e.rep.Ends = map[string]int64{}
	e.rep.Outcomes = map[string]int64{}
	lo := opt.PB
	if opt.Iterate {
		lo = 0
	}
	for pb := lo; pb <= opt.PB && !e.stop; pb++ {
		e.pb = pb
		e.db = opt.DB
		if opt.Iterate && e.db > pb {
			e.db = pb
		}
		if !opt.NoCache {
			if e.cache == nil {
				e.cache = newStateCache()
			} else {
				e.cache.clear()
			}
		}
		e.explore(nil)
		if e.cache != nil {
			e.rep.States += int64(e.cache.n)
		}
		if !e.stop {
			e.rep.PBDone = pb
			e.rep.DBDone = e.db
		}
	}
	e.rep.Exhaustive = !e.stop && e.rep.Nondet == ""
	// confirm every found violation by replaying it (determinism) and attach a trace
	keys := make([]string, 0, len(e.found))
	for k := range e.found {
		keys = append(keys, k)
	}
	sort.Strings(keys)
	for _, k := range keys {
		f := e.found[k]
		skip := false
		for _, p := range NoReconfirm {
			if len(k) >= len(p) && k[:len(p)] == p {
				skip = true
			}
		}
		if skip {
			x := e.run(f.Choices, true, 1000, 1000, nil)
			f.Trace = x.Trace
			f.Log = logStrings(x.Log)
			e.rep.Found = append(e.rep.Found, f)
			continue
		}
		var first *Exec
		ok := true
		for i := 0; i < 3; i++ {
			x := e.run(f.Choices, true, 1000, 1000, nil)
			x.Log = append([]Event(nil), x.Log...)
			if first == nil {
				first = x
			} else if x.fp != first.fp || !sameLog(x.Log, first.Log) {
				ok = false
			}
			has := false
			for _, v := range e.sc.Check(x) {
				if v.Sig == f.Sig {
					has = true
				}
			}
			if !has {
				ok = false
			}
		}
		if !ok {
			e.rep.Nondet = "violation " + f.Sig + " did not reproduce from its recorded schedule"
		}
		f.Trace = first.Trace
		f.Log = logStrings(first.Log)
		e.rep.Found = append(e.rep.Found, f)
	}
	e.rep.WallS = time.Since(start).Seconds()
	return e.rep
}

// Replay runs one recorded choice list with tracing and returns the execution and verdicts.
func Replay(sc *Scenario, choices []int32) (*Exec, []Violation) {
	e := &Explorer{sc: sc, found: map[string]*Found{}}
	e.rep = &Report{Ends: map[string]int64{}, Outcomes: map[string]int64{}}
	x := e.run(choices, true, 1000, 1000, nil)
	return x, sc.Check(x)
}

func sameLog(a, b []Event) bool {
	if len(a) != len(b) {
		return false
	}
	for i := range a {
		if a[i].Msg != b[i].Msg || a[i].Thread != b[i].Thread {
			return false
		}
	}
	return true
}

func logStrings(l []Event) []string {
	r := make([]string, len(l))
	for i, e := range l {
		r[i] = fmt.Sprintf("T%d %s", e.Thread, e.Msg)
	}
	return r
}

type runCopy struct {
	points  []pointRec
	costs   []uint8
	choices []int32
}

func (e *Explorer) explore(prefix []int32) {
	if e.stop {
		return
	}
	x := e.run(prefix, false, e.pb, e.db, e.cache)
	e.account(x)
	if x.End == EndNondet {
		e.rep.Nondet = x.EndMsg
		e.stop = true
		return
	}
	if e.opt.MaxExecs > 0 && e.rep.Execs >= e.opt.MaxExecs {
		e.stop = true
		e.rep.CapHit = "max executions"
		return
	}
	if !e.opt.Deadline.IsZero() && e.rep.Execs%64 == 0 && time.Now().After(e.opt.Deadline) {
		e.stop = true
		e.rep.CapHit = "deadline"
		return
	}
	rc := runCopy{points: append([]pointRec(nil), x.points...), costs: append([]uint8(nil), x.costs...), choices: append([]int32(nil), x.choices...)}
	x = nil
	for i := len(rc.points) - 1; i >= len(prefix); i-- {
		p := rc.points[i]
		for alt := int32(1); alt < p.n; alt++ {
			c := int(rc.costs[int(p.costOff)+int(alt)])
			pb, db := int(p.pbBefore), int(p.dbBefore)
			if p.env {
				db += c
			} else {
				pb += c
			}
			if pb > e.pb || db > e.db {
				continue
			}
			np := make([]int32, i+1)
			copy(np, rc.choices[:i])
			np[i] = alt
			e.explore(np)
			if e.stop {
				return
			}
		}
	}
}

func (e *Explorer) account(x *Exec) {
	r := e.rep
	r.Execs++
	r.Steps += int64(x.Steps)
	r.TotalPoints += int64(len(x.points))
	r.Ends[x.End.String()]++
	if x.Steps > r.MaxSteps {
		r.MaxSteps = x.Steps
	}
	if len(x.threads) > r.MaxThreads {
		r.MaxThreads = len(x.threads)
	}
	if x.pbUsed > r.MaxPBUsed {
		r.MaxPBUsed = x.pbUsed
	}
	if x.End == EndPruned {
		r.Pruned++
		return
	}
	if x.End == EndNondet {
		return
	}
	out := ""
	if e.sc.Outcome != nil {
		out = e.sc.Outcome(x)
	} else {
		for _, ev := range x.Log {
			out += ev.Msg + ";"
		}
	}
	out = x.End.String() + "|" + out
	r.Outcomes[out]++
	if len(r.Samples) < 3 && (r.Execs == 1 || r.Outcomes[out] == 1) {
		r.Samples = append(r.Samples, append([]string{fmt.Sprintf("choices=%v end=%s", x.choices, x.End)}, logStrings(x.Log)...))
	}
	verdicts := e.sc.Check(x)
	if PostExec != nil {
		verdicts = append(verdicts, PostExec(x)...)
	}
	for _, v := range verdicts {
		f := e.found[v.Sig]
		if f == nil {
			f = &Found{Sig: v.Sig, Msg: v.Msg, Choices: append([]int32(nil), x.choices...), PB: x.pbUsed, DB: x.dbUsed}
			e.found[v.Sig] = f
		}
		f.Count++
	}
}

// run executes the scenario once: replay prefix, then default choices.
func (e *Explorer) run(prefix []int32, trace bool, pb, db int, cache *stateCache) *Exec {
	hz := e.sc.Horizon
	if hz == 0 {
		hz = 20000
	}
	ex := &Exec{prefix: prefix, pbMax: pb, dbMax: db, horizon: hz, cache: cache, useHB: true, TraceOn: trace}
	// reuse the previous execution's buffers (the caller has copied what it keeps)
	sc := &e.scr
	sc.objs.reset()
	ex.objs = sc.objs
	ex.choices, ex.points, ex.costs, ex.Log, ex.threads = sc.choices[:0], sc.points[:0], sc.costs[:0], sc.log[:0], sc.threads[:0]
	for _, h := range execStartHooks {
		h(ex)
	}
	runExec(ex, e.sc.Body)
	sc.objs = ex.objs
	sc.choices, sc.points, sc.costs, sc.log, sc.threads = ex.choices, ex.points, ex.costs, ex.Log, ex.threads
	return ex
}

//go:norace
func runExec(ex *Exec, body func()) {
	cur = ex
	t0 := ex.newThread("main", false, nil, body)
	ex.running = t0
	unpark(t0)
	for ex.ended == 0 {
		runtime.Gosched()
	}
	for i := 0; i < len(ex.threads); i++ {
		t := ex.threads[i]
		for t.exited == 0 {
			t.wake = 1
			runtime.Gosched()
		}
		atomic.LoadInt64(&t.fence) // acquire what the thread did (oracles read its results)
	}
	atomic.AddInt64(&execFence, 1) // release towards the threads of later executions
	cur = nil
	for i := len(ex.cleanups) - 1; i >= 0; i-- {
		ex.cleanups[i]()
	}
	ex.cleanups = nil
}
