#!/usr/bin/env python3
# usage: addcheck.py <id> <engine> <technique> <level text> <level note> <design ref>
import json,sys
pid,engine,tech,text,note,ref=sys.argv[1:7]
m=json.load(open('/verif/MANIFEST.json'))
m['not_applicable']=[x for x in m['not_applicable'] if x['property_id']!=pid]
m['checks']=[c for c in m['checks'] if c['property_id']!=pid]
m['checks'].append({"property_id":pid,"quick_cmd":f"./bin/check {pid} --tier quick","thorough_cmd":f"./bin/check {pid} --tier thorough","evidence_file":f"/verif/evidence/{pid}.json","replay_cmd_template":f"./bin/check {pid} --replay {{path}}","engine":engine,"level_claimed":{"category":"model_checking","text":text,"design_ref":ref},"level_note":note,"technique":tech})
m['checks'].sort(key=lambda c:c['property_id'])
json.dump(m,open('/verif/MANIFEST.json','w'),indent=1)
