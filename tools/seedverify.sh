#!/bin/bash
# usage: seedverify.sh <seed-name> <worktree> <property> [check ids...]
# Confirms a seeded change in its scratch worktree (suite passes with it, demo fails with it and
# passes without it), runs the given checks against the worktree (VERIF_REPO) and stores the
# artefacts under /verif/seeded/<seed-name>/.
set -u
name=$1; wt=$2; prop=$3; shift 3; checks="$*"
export GOFLAGS=-mod=mod GOPROXY=off GOSUMDB=off GOTOOLCHAIN=local
out=/verif/seeded/$name; mkdir -p $out
cp $wt/SEED/patch.diff $out/patch.diff
for f in $wt/SEED/*; do case "$f" in *patch.diff) ;; *) cp "$f" $out/ ;; esac; done
cd $wt
demo=$(ls zz_seed*_test.go mux/zz_seed*_test.go 2>/dev/null | head -1)
pkg=.; case "$demo" in mux/*) pkg=./mux ;; esac
log=$out/verify.log; : > $log
# state: change applied?
git apply --check -R SEED/patch.diff 2>/dev/null && applied=1 || applied=0
[ $applied = 0 ] && git apply SEED/patch.diff
echo "== demo WITH change (expect FAIL)" >> $log
go test -vet=off -count=1 -run 'TestSeed' $pkg >> $log 2>&1; with=$?
git apply -R SEED/patch.diff
echo "== demo WITHOUT change (expect ok)" >> $log
go test -vet=off -count=1 -run 'TestSeed' $pkg >> $log 2>&1; without=$?
git apply SEED/patch.diff
echo "== suite WITH change, demo moved aside (expect ok)" >> $log
mkdir -p /tmp/seed-aside-$name; mv $demo /tmp/seed-aside-$name/
go build ./... >> $log 2>&1 && go test -vet=off -count=1 -timeout 25m ./... >> $log 2>&1; suite=$?
mv /tmp/seed-aside-$name/$(basename $demo) $demo; rmdir /tmp/seed-aside-$name
res=""
for c in $checks; do
  echo "== check $c against the changed tree" >> $log
  VERIF_REPO=$wt /verif/bin/check $c > $out/check-$c.out 2>&1; rc=$?
  grep -E "^(violation|VIOLATION|KNOWN|check )" $out/check-$c.out >> $log
  res="$res $c:exit=$rc"
done
echo "SEED $name prop=$prop demo_with=$with demo_without=$without suite_with=$suite checks:$res" | tee -a $log
