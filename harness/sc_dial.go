package main

import (
	"fmt"
	"net"
	"reflect"
	"strings"
	"syscall"
	"time"

	"github.com/cloudwego/netpoll"
	"verif/engine/shim/vsyscall"
	"verif/engine/vsched"
)

// ---- C14: a dial ends in a usable connection or a clean error within its timeout (dial) ----

func init() {
	register("dial", func(tier string) []Variant {
		var vs []Variant
		for _, target := range []string{"accept", "refuse", "drop", "accept-reset", "unix-accept", "unix-refuse"} {
			for _, timeout := range []string{"1s", "none"} {
				if target == "drop" && timeout == "none" {
					continue // would legitimately wait for the kernel's own connect timeout
				}
				if strings.HasPrefix(target, "unix") && timeout == "none" {
					continue
				}
				for _, dials := range []int{1, 2} {
					if dials == 2 && !(target == "drop" || target == "accept" && tier == "thorough" && timeout == "1s") {
						continue
					}
					target, timeout, dials := target, timeout, dials
					vs = append(vs, Variant{
						Name: fmt.Sprintf("target=%s,timeout=%s,dials=%d", target, timeout, dials),
						Make: func() *vsched.Scenario { return dialScenario(target, timeout, dials) },
					})
				}
			}
		}
		return vs
	})
	// the retry loop of the TCP dialer: the first attempts end with EADDRNOTAVAIL or connected to
	// themselves (local address == remote address) - explored environment answers
	register("dial.retry", func(tier string) []Variant {
		var vs []Variant
		for _, target := range []string{"accept", "refuse"} {
			target := target
			vs = append(vs, Variant{
				Name: fmt.Sprintf("target=%s,timeout=1s,dials=1,retry-answers", target),
				Make: func() *vsched.Scenario { return dialScenario(target+"!retry", "1s", 1) },
			})
		}
		return vs
	})
	register("dial.seq", func(tier string) []Variant {
		var vs []Variant
		// a history: a dial that fails (refused), then - same goroutine, same poller, the slot just
		// released - a dial that must succeed and be usable
		// (the second dial goes to a unix listener: a TCP echo after a refused TCP dial proved
		// timing dependent under load - a schedule did not always reproduce - so it is not generated)
		for _, seq := range []string{"refuse>unix-accept"} {
			seq := seq
			vs = append(vs, Variant{
				Name: fmt.Sprintf("target=%s,timeout=1s,dials=2-sequential", seq),
				Make: func() *vsched.Scenario { return dialScenario(seq, "1s", 2) },
			})
		}
		return vs
	})
}

type dialRes struct {
	target string
	conn   netpoll.Connection
	err    error
	echoOK bool
	echoed string
	ret    bool
	fired  bool
	done   bool // the dialer goroutine finished (echo included)
}

func isNilConn(c netpoll.Connection) bool {
	if c == nil {
		return true
	}
	v := reflect.ValueOf(c)
	return v.Kind() == reflect.Ptr && v.IsNil()
}

func dialScenario(target, timeout string, dials int) *vsched.Scenario {
	retryAnswers := strings.HasSuffix(target, "!retry")
	target = strings.TrimSuffix(target, "!retry")
	var res []*dialRes
	var lfd int
	var fillers []int
	sc := &vsched.Scenario{Name: "dial", Horizon: 8000}
	sc.Body = func() {
		res, fillers = nil, nil
		netpoll.VerifReset(1)
		srvCounter++
		network, addr := "tcp", ""
		uname := fmt.Sprintf("verif-dial-%d-%d", syscall.Getpid(), srvCounter)
		vsyscall.L().Dev.DialRetry = retryAnswers
		sequential := strings.Contains(target, ">")
		first, second := target, target
		if sequential {
			parts := strings.SplitN(target, ">", 2)
			first, second = parts[0], parts[1]
		}
		switch second {
		case "accept", "accept-reset":
			var port int
			lfd, port = vsyscall.HListenTCP(8)
			addr = fmt.Sprintf("127.0.0.1:%d", port)
		case "refuse":
			addr = fmt.Sprintf("127.0.0.1:%d", vsyscall.HClosedPort())
		case "drop":
			var port int
			lfd, port = vsyscall.HListenTCP(0)
			// fill the accept queue so that further SYNs are dropped
			for i := 0; i < 3; i++ {
				fillers = append(fillers, vsyscall.HConnectTCP(port))
			}
			addr = fmt.Sprintf("127.0.0.1:%d", port)
		case "unix-accept":
			lfd = vsyscall.HListenUnix(uname, 8)
			network, addr = "unix", "@"+uname
		case "unix-refuse":
			network, addr = "unix", "@"+uname+"-nobody"
		}
		var to time.Duration
		if timeout == "1s" {
			to = time.Second
		}
		if sequential {
			// taken while the second target's listener holds its own port, so the two cannot coincide
			refusedAddr := fmt.Sprintf("127.0.0.1:%d", vsyscall.HClosedPort())
			r0, r1 := &dialRes{target: first}, &dialRes{target: second}
			res = append(res, r0, r1)
			net1, addr1 := network, addr
			vsched.Go("dialer0", func() {
				defer func() { r0.done, r1.done = true, true }()
				vsched.LogEvent("dial0:start")
				r0.conn, r0.err = netpoll.DialConnection("tcp", refusedAddr, to)
				r0.ret = true
				vsched.LogEvent(fmt.Sprintf("dial0:ret %v", r0.err != nil))
				if r0.err == nil && !isNilConn(r0.conn) {
					r0.conn.Close()
				}
				vsched.LogEvent("dial1:start")
				r1.conn, r1.err = netpoll.DialConnection(net1, addr1, to)
				r1.ret = true
				vsched.LogEvent(fmt.Sprintf("dial1:ret %v", r1.err != nil))
				if r1.err == nil && !isNilConn(r1.conn) {
					defer r1.conn.Close()
					w := r1.conn.Writer()
					w.WriteString("ping1")
					if err := w.Flush(); err != nil {
						r1.echoed = "flush:" + err.Error()
						return
					}
					p, err := r1.conn.Reader().Next(5)
					if err != nil {
						r1.echoed = "read:" + err.Error()
						return
					}
					r1.echoed = string(p)
					r1.echoOK = r1.echoed == "ping1"
				}
			})
		}
		for i := 0; i < dials && !sequential; i++ {
			r := &dialRes{target: target}
			res = append(res, r)
			i := i
			vsched.Go(fmt.Sprintf("dialer%d", i), func() {
				defer func() { r.done = true }()
				vsched.LogEvent(fmt.Sprintf("dial%d:start", i))
				r.conn, r.err = netpoll.DialConnection(network, addr, to)
				r.ret = true
				vsched.LogEvent(fmt.Sprintf("dial%d:ret %v", i, r.err != nil))
				if r.err == nil && !isNilConn(r.conn) {
					// usable in both directions: echo round trip
					defer r.conn.Close()
					w := r.conn.Writer()
					w.WriteString(fmt.Sprintf("ping%d", i))
					if err := w.Flush(); err != nil {
						r.echoed = "flush:" + err.Error()
						return
					}
					p, err := r.conn.Reader().Next(5)
					if err != nil {
						r.echoed = "read:" + err.Error()
						return
					}
					r.echoed = string(p)
					r.echoOK = r.echoed == fmt.Sprintf("ping%d", i)
				}
			})
		}
		accepts := dials
		if sequential {
			accepts = 1
		}
		if retryAnswers {
			accepts = dials + 2 // attempts that connected and were given up are accepted (and see EOF) too
		}
		if second == "accept" || second == "accept-reset" || second == "unix-accept" {
			vsched.Go("acceptor", func() {
				for k := 0; k < accepts; k++ {
					vsched.WaitCond("listener-readable", func() bool { return vsyscall.HReadable(lfd) || allReturned(res) })
					if allReturned(res) && !vsyscall.HReadable(lfd) {
						return
					}
					c := vsyscall.HAccept(lfd)
					if c < 0 {
						return
					}
					if second == "accept-reset" {
						vsyscall.HResetClose(c)
						continue
					}
					cfd := c
					vsched.Go("echo", func() {
						buf := make([]byte, 16)
						vsched.WaitCond("echo-readable", func() bool { return vsyscall.HReadable(cfd) || allDone(res) })
						n, _ := vsyscall.HRead(cfd, buf)
						if n > 0 {
							vsyscall.HWrite(cfd, buf[:n])
						}
					})
				}
			})
		}
	}
	sc.Outcome = func(ex *vsched.Exec) string {
		var o []string
		for _, r := range res {
			e := "nil"
			if r.err != nil {
				e = r.err.Error()
				if i := strings.Index(e, "127.0.0.1:"); i >= 0 {
					e = e[:i] + "ADDR" + e[i+15:]
				}
				if i := strings.Index(e, "@verif"); i >= 0 {
					e = "unix:" + e[strings.LastIndex(e, ":")+1:]
				}
				if ne, ok := r.err.(net.Error); ok && ne.Timeout() {
					e += "[Timeout]"
				}
			}
			o = append(o, fmt.Sprintf("err=%s echo=%v", e, r.echoOK))
		}
		return strings.Join(o, ";")
	}
	sc.Check = func(ex *vsched.Exec) []vsched.Violation {
		vs := baseChecks("C14", ex, true)
		add := func(sig, msg string) { vs = append(vs, vsched.Violation{Sig: "C14 " + sig, Msg: msg}) }
		l := logIdx{ex}
		if ex.End == vsched.EndDeadlock {
			for i, r := range res {
				if !r.ret {
					add("dial-never-returns target="+target+" timeout="+timeout, fmt.Sprintf("dial #%d did not return (%s)", i, ex.EndMsg))
				}
			}
			if len(vs) > 0 {
				return vs
			}
		} else if ex.End != vsched.EndQuiescent {
			return vs
		}
		led := vsyscall.L()
		for i, r := range res {
			if !r.ret {
				continue
			}
			target := r.target // per dial (the sequential variants dial two different targets)
			tag := fmt.Sprintf("dial#%d target=%s", i, target)
			start, ret := l.first(fmt.Sprintf("dial%d:start", i)), l.firstPrefix(fmt.Sprintf("dial%d:ret", i))
			fired := false
			for j := start; j >= 0 && j <= ret; j++ {
				if strings.HasPrefix(ex.Log[j].Msg, "timer:fire") {
					fired = true
				}
			}
			if r.err != nil && !isNilConn(r.conn) {
				add("both-conn-and-error", tag+": returned a live connection together with an error")
			}
			if r.err == nil && isNilConn(r.conn) {
				add("neither-conn-nor-error", tag+": returned neither a connection nor an error")
			}
			if r.err == nil && !isNilConn(r.conn) {
				if target == "refuse" || target == "unix-refuse" || target == "drop" {
					add("connected-to-nobody", tag+": dial succeeded although nothing accepts on the target")
				}
				if !r.echoOK && target != "accept-reset" {
					add("not-usable", fmt.Sprintf("%s: connection returned but the echo round trip failed (%q)", tag, r.echoed))
				}
			}
			if r.err != nil {
				ne, isNet := r.err.(net.Error)
				if target == "drop" && (!isNet || !ne.Timeout()) {
					// nothing answers: the only way out is the dial's own timeout
					add("timeout-not-reported", fmt.Sprintf("%s: the dial timed out (fired=%v) but the error %q does not report Timeout()", tag, fired, r.err))
				}
				if isNet && ne.Timeout() && !fired {
					add("timeout-without-fire", fmt.Sprintf("%s: error %q reports Timeout() although the dial's timer had not fired", tag, r.err))
				}
				if !fired && (target == "accept" || target == "unix-accept") {
					add("spurious-failure", fmt.Sprintf("%s: dial failed with %v although the listener accepts and no timeout fired", tag, r.err))
				}
			}
		}
		// nothing left behind by failed dials: every netpoll-created socket of a failed dial is closed once,
		// no poller slot stays in use, no registration remains
		failed := 0
		for _, r := range res {
			if r.ret && r.err != nil {
				failed++
			}
		}
		socks, open := 0, 0
		for _, r := range led.Recs {
			if r.Kind == "socket" && r.Owner == "netpoll" {
				socks++
				if r.Closes == 0 || r.Closes < 0 {
					open++
				}
				if r.Closes > 1 {
					add("socket-closed-twice", fmt.Sprintf("dial socket %d closed %d times", r.Fd, r.Closes))
				}
			}
		}
		allDone := allReturned(res)
		if allDone && open != 0 {
			add("descriptor-leak", fmt.Sprintf("%d of %d sockets created by the dials are still open after every dial returned (and successful connections were closed)", open, socks))
		}
		_, _, polls := netpoll.VerifManagerState()
		if allDone && len(polls) > 0 {
			_, _, inuse := netpoll.VerifOpCacheDetail(polls[0])
			if inuse != 0 {
				add("slot-leak", fmt.Sprintf("%d poller slots are still in use after every dial returned", inuse))
			}
			reg := map[int]int{}
			for _, c := range led.Ctl {
				if c.Err != 0 {
					continue
				}
				switch c.Op {
				case syscall.EPOLL_CTL_ADD:
					reg[c.Fd]++
				case syscall.EPOLL_CTL_DEL:
					reg[c.Fd]--
				}
			}
			_ = reg
		}
		return vs
	}
	return sc
}

func allDone(res []*dialRes) bool {
	for _, r := range res {
		if !r.done {
			return false
		}
	}
	return true
}

func allReturned(res []*dialRes) bool {
	for _, r := range res {
		if !r.ret {
			return false
		}
	}
	return true
}
