package main

import (
	"context"
	"fmt"
	"strings"

	"github.com/cloudwego/netpoll"
	"verif/engine/shim/vsyscall"
	"verif/engine/vsched"
)

// ---- C06: serial request handling, no stranded input (conn.request) ----

func init() {
	register("conn.request", func(tier string) []Variant {
		var vs []Variant
		chunkings := []string{"6", "2-4", "4-2", "2-2-2", "3-3", "1-5"}
		for _, kind := range []string{"server", "server+onconnect", "client-late"} {
			for _, h := range []string{"readall", "read2"} {
				for _, ch := range chunkings {
					for _, cl := range []string{"open", "close"} {
						if kind != "server" && (ch == "3-3" || ch == "1-5") {
							continue
						}
						kind, h, ch, cl := kind, h, ch, cl
						vs = append(vs, Variant{
							Name: fmt.Sprintf("kind=%s,handler=%s,chunks=%s,peer=%s", kind, h, ch, cl),
							Make: func() *vsched.Scenario { return requestScenario(kind, h, ch, cl == "close") },
						})
					}
				}
			}
		}
		return vs
	})
}

func requestScenario(kind, handler, chunks string, peerClose bool) *vsched.Scenario {
	var conn netpoll.Connection
	var a, b int
	var consumed []byte
	total := 6
	sc := &vsched.Scenario{Name: "conn.request", Horizon: 6000}
	sc.Body = func() {
		consumed = nil
		netpoll.VerifReset(1)
		a, b = vsyscall.HSocketpair(0)
		vsyscall.Adopt(a)
		onReq := func(ctx context.Context, c netpoll.Connection) error {
			vsched.LogEvent("request:start")
			defer vsched.LogEvent("request:end")
			r := c.Reader()
			if handler == "readall" {
				p, _ := r.Next(r.Len())
				consumed = append(consumed, p...)
				r.Release()
				return nil
			}
			p, err := r.Next(2) // blocks for a whole message
			if err != nil {
				vsched.LogEvent("request:error-close")
				c.Close()
				return nil
			}
			consumed = append(consumed, p...)
			r.Release()
			return nil
		}
		addCb := func(c netpoll.Connection) {
			c.AddCloseCallback(func(netpoll.Connection) error { vsched.LogEvent("closecb"); return nil })
		}
		peer := func() {
			off := 0
			for _, s := range strings.Split(chunks, "-") {
				n := int(s[0] - '0')
				vsyscall.HWrite(b, stream(off, n))
				off += n
			}
			if peerClose {
				vsyscall.HClose(b)
				vsched.LogEvent("peer:closed")
			}
		}
		switch kind {
		case "client-late":
			c, err := netpoll.VerifFDConn(a, "unix")
			if err != nil {
				panic(err)
			}
			conn = c
			addCb(c)
			vsched.Go("peer", peer)
			vsched.Go("user", func() {
				vsched.LogEvent("setonrequest")
				c.SetOnRequest(onReq)
			})
		default:
			opts := []netpoll.Option{netpoll.WithOnPrepare(func(c netpoll.Connection) context.Context {
				conn = c
				addCb(c)
				return context.Background()
			})}
			if kind == "server+onconnect" {
				opts = append(opts, netpoll.WithOnConnect(func(ctx context.Context, c netpoll.Connection) context.Context {
					vsched.LogEvent("connect:start")
					steps(c, 2)
					vsched.LogEvent("connect:end")
					return ctx
				}))
			}
			srv := netpoll.VerifNewServer(onReq, opts...)
			vsched.Go("peer", peer)
			srv.Accept(a, "unix")
		}
	}
	sc.Outcome = func(ex *vsched.Exec) string {
		var o []string
		for _, e := range ex.Log {
			o = append(o, e.Msg)
		}
		return fmt.Sprintf("%s|%d", strings.Join(o, ";"), len(consumed))
	}
	sc.Check = func(ex *vsched.Exec) []vsched.Violation {
		vs := baseChecks("C06", ex, false)
		if ex.End != vsched.EndQuiescent {
			return vs
		}
		add := func(sig, msg string) { vs = append(vs, vsched.Violation{Sig: "C06 " + sig, Msg: msg}) }
		l := logIdx{ex}
		depth := 0
		for _, e := range ex.Log {
			switch e.Msg {
			case "request:start":
				depth++
				if depth > 1 {
					add("handler-overlap", "two OnRequest invocations in progress at the same time")
				}
			case "request:end":
				depth--
			}
		}
		want := stream(0, total)
		if len(consumed) > total || string(consumed) != string(want[:len(consumed)]) {
			add("handler-bytes", fmt.Sprintf("handler consumed %d bytes that are not a prefix of the %d sent", len(consumed), total))
		}
		st := netpoll.VerifState(conn)
		errClose := l.count("request:error-close") > 0
		if !peerClose {
			// connection stays open: every byte must have been offered and consumed, nothing stranded
			if st.Closing == 0 && len(consumed) != total {
				add("stranded", fmt.Sprintf("quiescent with the connection open: %d of %d bytes consumed, %d left in the input buffer and no handler running", len(consumed), total, st.InputLen))
			}
		} else {
			// peer closed after sending whole messages: all input is offered to the handler before the close callbacks
			// a connection torn down before its OnConnect was ever started gets no callbacks at all
			// (the accept path drops it): consistent, see C09; nothing can be offered then
			neverConnected := kind == "server+onconnect" && l.count("connect:start") == 0
			if !neverConnected && !errClose && len(consumed) != total {
				add("input-lost-at-close", fmt.Sprintf("peer sent %d bytes and closed; the handler only got %d before the connection was torn down", total, len(consumed)))
			}
			cb := l.first("closecb")
			if le := l.last("request:end"); cb >= 0 && le > cb {
				add("handler-after-closecb", "an OnRequest invocation ended after the close callbacks had started")
			}
			if st.Closing != 0 && cb < 0 {
				add("closecb-never", "connection closed by the peer but its close callback never ran")
			}
		}
		return vs
	}
	return sc
}
