package main

var schedAssume = []string{
	"interleavings are sequentially consistent at the granularity of intercepted operations (atomics, mutexes, channels, syscalls, timers)",
	"coverage is all executions of the listed drivers within the stated preemption/deviation bounds, not all programs",
	"instrumentation is generated from /repo's working tree by a syntactic rewriter (imports redirected to forwarding shims)",
}

var seqAssume = []string{
	"operation sequences respect the interface contracts as read from the doc comments (DESIGN.md 3/C01); one goroutine per buffer",
	"states are deduplicated by a canonical key of the implementation's node chain plus the reference model's counters and live results",
	"the pool allocator is replaced at build time by a never-reusing, poisoning, ledger-keeping one",
}

var plans = map[string]PropPlan{
	"C01": {
		Quick: []Plan{{Scenario: "lb", Kind: "seq"}}, Thorough: []Plan{{Scenario: "lb", Kind: "seq"}},
		QuickSecs: 90, ThoroughSecs: 1500, Assumptions: seqAssume,
	},
	"C02": {
		Quick:     []Plan{{Scenario: "lb", Kind: "seq"}, {Scenario: "lb.share", PB: 2}, {Scenario: "lb.share.fine", PB: 1, Fine: true}},
		Thorough:  []Plan{{Scenario: "lb", Kind: "seq"}, {Scenario: "lb.share", PB: 4}, {Scenario: "lb.share.fine", PB: 2, Fine: true}},
		QuickSecs: 90, ThoroughSecs: 1500, Assumptions: append([]string{"lb.share: the parent's reader and up to two Slice readers owned by other goroutines, all interleavings within the preemption bound; every return of a block to the pool and every examination of a result are scheduling points on one 'pool' object"}, seqAssume...),
	},
	"C03": {
		Quick:     []Plan{{Scenario: "lb", Kind: "seq"}, {Scenario: "lb.share", PB: 2}, {Scenario: "lb.share.fine", PB: 1, Fine: true}},
		Thorough:  []Plan{{Scenario: "lb", Kind: "seq"}, {Scenario: "lb.share", PB: 4}, {Scenario: "lb.share.fine", PB: 2, Fine: true}},
		QuickSecs: 90, ThoroughSecs: 1500, Assumptions: append([]string{"lb.share: the parent's reader and up to two Slice readers owned by other goroutines, all interleavings within the preemption bound; every return of a block to the pool and every examination of a result are scheduling points on one 'pool' object"}, seqAssume...),
	},
	"C04": {
		Quick:     []Plan{{Scenario: "conn.send", PB: 2, DB: 1}, {Scenario: "conn.recv", PB: 2, DB: 1}, {Scenario: "conn.send.fine", PB: 1, DB: 1, Fine: true}, {Scenario: "conn.recv.fine", PB: 1, DB: 0, Fine: true}},
		Thorough:  []Plan{{Scenario: "conn.send", PB: 3, DB: 2}, {Scenario: "conn.recv", PB: 3, DB: 2}, {Scenario: "conn.send.fine", PB: 2, DB: 1, Fine: true}, {Scenario: "conn.recv.fine", PB: 2, DB: 1, Fine: true}},
		QuickSecs: 115, ThoroughSecs: 1800,
		Assumptions: append([]string{"each half of the path is driven against a raw peer on an AF_UNIX socketpair (conn.send: netpoll writes, raw peer reads; conn.recv: raw peer writes, netpoll reads); TCP is not covered", "the .fine scenarios add a scheduling point before every statement of the LinkBuffer methods, the deliberately lock-free region shared by the poller and the single reader/writer", "short writes/reads and EAGAIN are injected as environment deviations; the genuinely full socket comes from a real 8 KB socket buffer"}, schedAssume...),
	},
	"C05": {
		Quick:     []Plan{{Scenario: "conn.teardown", PB: 2, DB: 0}},
		Thorough:  []Plan{{Scenario: "conn.teardown", PB: 3, DB: 0}},
		QuickSecs: 100, ThoroughSecs: 1500,
		Assumptions: schedAssume,
	},
	"C06": {
		Quick:     []Plan{{Scenario: "conn.request", PB: 2, DB: 0}},
		Thorough:  []Plan{{Scenario: "conn.request", PB: 3, DB: 0}},
		QuickSecs: 90, ThoroughSecs: 1200,
		Assumptions: schedAssume,
	},
	"C07": {
		Quick:     []Plan{{Scenario: "conn.read", PB: 2, DB: 1}},
		Thorough:  []Plan{{Scenario: "conn.read", PB: 3, DB: 2}},
		QuickSecs: 100, ThoroughSecs: 1200,
		Assumptions: append([]string{"time is virtual: a configured timer may fire at any scheduling point (one preemption while other threads can run; free when everything else is blocked); both the legacy buffered timer channel and the Go 1.23 semantics are explored"}, schedAssume...),
	},
	"C08": {
		Quick:     []Plan{{Scenario: "conn.flush", PB: 2, DB: 1}},
		Thorough:  []Plan{{Scenario: "conn.flush", PB: 3, DB: 2}},
		QuickSecs: 90, ThoroughSecs: 1200,
		Assumptions: append([]string{"time is virtual (write timer may fire at any scheduling point)", "explored up to the first reported write error per connection: flushing again after a timeout is outside the guarantee (C04 scope) and not driven", "short writes / EAGAIN on sendmsg are injected as environment deviations; genuinely full socket buffers come from a real 8 KB AF_UNIX socketpair"}, schedAssume...),
	},
	"C09": {
		Quick:     []Plan{{Scenario: "conn.lifecycle", PB: 2, DB: 0}},
		Thorough:  []Plan{{Scenario: "conn.lifecycle", PB: 3, DB: 0}},
		QuickSecs: 90, ThoroughSecs: 900,
		Assumptions: schedAssume,
	},
	"C10": {
		Quick:     []Plan{{Scenario: "slot.reuse", PB: 2, DB: 0}},
		Thorough:  []Plan{{Scenario: "slot.reuse", PB: 3, DB: 0}},
		QuickSecs: 150, ThoroughSecs: 1200,
		Assumptions: schedAssume,
	},
	"C11": {
		Quick:     []Plan{{Scenario: "poll.live", PB: 2, DB: 1}, {Scenario: "poll.dispatch", PB: 0, DB: 3, NoIter: true}, {Scenario: "poll.many", PB: 1}},
		Thorough:  []Plan{{Scenario: "poll.live", PB: 3, DB: 1}, {Scenario: "poll.dispatch", PB: 1, DB: 4, NoIter: true}, {Scenario: "poll.many", PB: 2}},
		QuickSecs: 90, ThoroughSecs: 900,
		Assumptions: append([]string{"Linux epoll only (poll_default_bsd.go does not build here)", "poll.dispatch calls the real event handler with synthetic (flag set x real descriptor state) batches chosen as explored environment options; flag sets the kernel cannot produce for a state are judged by the safety clauses only", "operators are recording stubs with the connection's callback shapes"}, schedAssume...),
	},
	"C12": {
		Quick:     []Plan{{Scenario: "closed.api", PB: 1, DB: 3, NoIter: true}},
		Thorough:  []Plan{{Scenario: "closed.api", PB: 2, DB: 3, NoIter: true}},
		QuickSecs: 90, ThoroughSecs: 900,
		Assumptions: append([]string{"which API calls are made on the closed connection is an explored environment choice (every single call and every ordered pair of the 32 call shapes)", "every actor is run to quiescence before and after each call, so a call that does not return is an exact deadlock verdict"}, schedAssume...),
	},
	"C13": {
		Quick:     []Plan{{Scenario: "server", PB: 2, DB: 1}},
		Thorough:  []Plan{{Scenario: "server", PB: 3, DB: 2}},
		QuickSecs: 110, ThoroughSecs: 1500,
		Assumptions: append([]string{"AF_UNIX abstract-namespace listener (synchronous connect); 1-2 clients; EMFILE on accept injected as an environment deviation; Shutdown deadline on the virtual clock"}, schedAssume...),
	},
	"C14": {
		Quick:     []Plan{{Scenario: "dial", PB: 2, DB: 1}, {Scenario: "dial.seq", PB: 2, DB: 0}, {Scenario: "dial.retry", PB: 1, DB: 2}},
		Thorough:  []Plan{{Scenario: "dial", PB: 3, DB: 2}, {Scenario: "dial.seq", PB: 3, DB: 0}, {Scenario: "dial.retry", PB: 2, DB: 3}},
		QuickSecs: 90, ThoroughSecs: 1200,
		Assumptions: append([]string{"loopback TCP (IPv4) and AF_UNIX abstract sockets; after a non-blocking connect the harness waits (bounded, real time) until the kernel has decided the loopback handshake so that replays are deterministic", "the dial timeout runs on the virtual clock: 'within its timeout plus scheduling slack' is read as 'the dial needs no event after its own timer fired'", "a typed-nil connection returned together with an error counts as no connection"}, schedAssume...),
	},
	"C15": {
		Quick:     []Plan{{Scenario: "fd.audit", PB: 1, DB: 2, NoIter: true}, {Scenario: "slot.reuse", PB: 2, DB: 0}, {Scenario: "pollmgr", PB: 2, DB: 1}, {Scenario: "dial", PB: 1, DB: 1}, {Scenario: "listener", PB: 2}},
		Thorough:  []Plan{{Scenario: "listener", PB: 4}, {Scenario: "fd.audit", PB: 2, DB: 3, NoIter: true}, {Scenario: "slot.reuse", PB: 3, DB: 0}, {Scenario: "pollmgr", PB: 3, DB: 1}, {Scenario: "dial", PB: 2, DB: 1}, {Scenario: "conn.teardown", PB: 2, DB: 0}, {Scenario: "server", PB: 2, DB: 1}},
		QuickSecs: 110, ThoroughSecs: 1800,
		Assumptions: append([]string{"every close(2) netpoll issues goes through the descriptor ledger of the syscall shim (creator, owner, open/closed, close count); descriptors created by package net / os.File are registered by the harness", "an adversary opens a descriptor right after every close netpoll issues (it gets the number just freed) and its descriptors must be intact at the end: this also catches closes issued inside os.File that the shim cannot see", "the ledger verdicts of the other scheduled scenarios run under this check are reported here (signature prefix C15)"}, schedAssume...),
	},
	"C16": {
		Quick: []Plan{{Scenario: "adapters", Kind: "seq"}}, Thorough: []Plan{{Scenario: "adapters", Kind: "seq"}},
		QuickSecs: 90, ThoroughSecs: 1200,
		Assumptions: []string{"scripted sources/sinks cover the io.Reader/io.Writer contract answers listed in DESIGN.md 3/C16; after its script a source answers (0, io.EOF) and a sink accepts everything", "a call may fail although the source delivered data together with the error; the stream (total bytes after a drain) is what is compared"},
	},
	"C18": {
		Quick:     []Plan{{Scenario: "pollmgr", PB: 2, DB: 1}},
		Thorough:  []Plan{{Scenario: "pollmgr", PB: 3, DB: 2}},
		QuickSecs: 90, ThoroughSecs: 900,
		Assumptions: append([]string{"reconfiguration (SetNumLoops / SetLoadBalance) is only applied between phases, never concurrently with Pick (documented contract)", "fastrand.Intn of the Random balancer is an explored environment choice"}, schedAssume...),
	},
	"C19": {
		Quick: []Plan{{Scenario: "conn.teardown", PB: 1, Race: true}, {Scenario: "conn.lifecycle", PB: 1, Race: true}, {Scenario: "conn.request", PB: 1, Race: true}, {Scenario: "pollmgr", PB: 1, DB: 1, Race: true},
			{Scenario: "slot.reuse", PB: 1, Race: true}, {Scenario: "mux.shardq", PB: 1, Race: true}, {Scenario: "server", PB: 1, DB: 1, Race: true}, {Scenario: "dial", PB: 1, Race: true}, {Scenario: "conn.flush", PB: 1, DB: 1, Race: true},
			{Scenario: "conn.recv", PB: 1, Race: true}, {Scenario: "conn.send", PB: 1, Race: true}, {Scenario: "listener", PB: 2, Race: true}, {Scenario: "slot.drained", PB: 2, Race: true}},
		Thorough: []Plan{{Scenario: "conn.teardown", PB: 2, Race: true}, {Scenario: "conn.lifecycle", PB: 2, Race: true}, {Scenario: "conn.request", PB: 2, Race: true}, {Scenario: "pollmgr", PB: 2, DB: 1, Race: true},
			{Scenario: "slot.reuse", PB: 2, Race: true}, {Scenario: "mux.shardq", PB: 2, Race: true}, {Scenario: "server", PB: 2, DB: 1, Race: true}, {Scenario: "dial", PB: 2, DB: 1, Race: true},
			{Scenario: "conn.flush", PB: 2, DB: 1, Race: true}, {Scenario: "conn.read", PB: 2, DB: 1, Race: true}, {Scenario: "conn.send", PB: 2, DB: 1, Race: true}, {Scenario: "conn.recv", PB: 2, DB: 1, Race: true}, {Scenario: "poll.live", PB: 2, Race: true}, {Scenario: "listener", PB: 3, Race: true}},
		QuickSecs: 170, ThoroughSecs: 2400,
		Assumptions: []string{"the worker is built with -race, so the race-build substitutes (SafeLinkBuffer, fd->operator map) are the code under test", "the scheduler's hand-offs use plain memory in //go:norace functions and are invisible to ThreadSanitizer, which therefore reports, for each explored schedule, exactly the conflicting access pairs not ordered by the program's own synchronisation (vector clocks: no physical simultaneity needed)", "executions are ordered for the detector by a fence written only by the driver; the harness's own cross-thread hand-offs use real atomics; reports with an access in the harness or the engine are ignored", "timer channel sends are performed by whichever thread is scheduling, which can add a happens-before edge that the Go runtime's timer would not (possible false negatives for races ordered only through a timer tick)"},
	},
	"C17": {
		Quick:     []Plan{{Scenario: "mux.shardq", PB: 2, DB: 1}},
		Thorough:  []Plan{{Scenario: "mux.shardq", PB: 3, DB: 2}},
		QuickSecs: 60, ThoroughSecs: 600,
		Assumptions: schedAssume,
	},
}
