//go:build race

package main

import (
	"fmt"
	"os"
	"sort"
	"strings"

	"verif/engine/vsched"
)

// C19: in a -race build the race detector is a per-schedule oracle. The scheduler's hand-offs are
// invisible to it (plain memory in //go:norace functions), so for every explored schedule it
// reports exactly the conflicting accesses that the program's own synchronisation does not order.
// After each execution the new part of the detector's log is harvested and attributed to it.

var raceLogOff int64

func init() {
	vsched.PostExec = harvestRaces
	vsched.NoReconfirm = []string{"C19 race"}
}

func raceLogPath() string {
	for _, f := range strings.Fields(os.Getenv("GORACE")) {
		if strings.HasPrefix(f, "log_path=") {
			return fmt.Sprintf("%s.%d", strings.TrimPrefix(f, "log_path="), os.Getpid())
		}
	}
	return ""
}

func harvestRaces(ex *vsched.Exec) []vsched.Violation {
	p := raceLogPath()
	if p == "" {
		return nil
	}
	f, err := os.Open(p)
	if err != nil {
		return nil
	}
	defer f.Close()
	st, _ := f.Stat()
	if st.Size() <= raceLogOff {
		return nil
	}
	buf := make([]byte, st.Size()-raceLogOff)
	f.ReadAt(buf, raceLogOff)
	raceLogOff = st.Size()
	var vs []vsched.Violation
	for _, rep := range strings.Split(string(buf), "==================") {
		if !strings.Contains(rep, "WARNING: DATA RACE") {
			continue
		}
		a, b := raceSites(rep)
		if os.Getenv("VERIF_DEBUG_RACE") != "" {
			fmt.Fprintf(os.Stderr, "race report: sites %q %q\n", a, b)
		}
		if a == "" || b == "" {
			continue // at least one access is in the harness or the engine, not in netpoll
		}
		pair := []string{a, b}
		sort.Strings(pair)
		vs = append(vs, vsched.Violation{Sig: "C19 race " + pair[0] + " | " + pair[1], Msg: "the Go race detector reports unsynchronised conflicting accesses:\n" + strings.TrimSpace(rep)})
	}
	return vs
}

// raceSites returns, for the two accesses of a report, the innermost non-runtime function if it
// belongs to netpoll (else "").
func raceSites(rep string) (string, string) {
	var sites []string
	blocks := strings.Split(rep, "\n\n")
	for _, b := range blocks {
		lines := strings.Split(strings.Trim(b, "\n"), "\n")
		hi := -1
		for i, h := range lines {
			if strings.Contains(h, " at 0x") && (strings.Contains(h, "by goroutine") || strings.Contains(h, "by main goroutine")) {
				hi = i
				break
			}
		}
		if hi < 0 {
			continue
		}
		lines = lines[hi:]
		site := ""
		for _, l := range lines[1:] {
			// function lines are indented by two spaces, their locations by six
			if !strings.HasPrefix(l, "  ") || strings.HasPrefix(l, "   ") {
				continue
			}
			l = strings.TrimSpace(l)
			if l == "" || strings.HasPrefix(l, "/") || strings.HasPrefix(l, "<") {
				continue
			}
			fn := l
			if i := strings.Index(fn, "("); i > 0 && strings.HasSuffix(fn, ")") {
				fn = fn[:strings.LastIndex(fn, "(")]
			}
			if strings.HasPrefix(fn, "runtime.") || strings.HasPrefix(fn, "sync.") || strings.HasPrefix(fn, "sync/atomic.") || strings.HasPrefix(fn, "internal/") ||
				strings.HasPrefix(fn, "verif/engine/shim/") || strings.HasPrefix(fn, "verif/engine/alloc.") || strings.HasPrefix(fn, "github.com/bytedance/gopkg/lang/mcache.") {
				continue // the shims are transparent: the access belongs to their caller
			}
			if strings.HasPrefix(fn, "github.com/cloudwego/netpoll") && !strings.Contains(fn, "Verif") {
				site = strings.TrimPrefix(fn, "github.com/cloudwego/netpoll")
				site = strings.TrimPrefix(site, ".")
			}
			break
		}
		sites = append(sites, site)
	}
	if len(sites) < 2 {
		return "", ""
	}
	return sites[0], sites[1]
}
