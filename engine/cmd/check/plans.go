package main

var schedAssume = []string{
	"interleavings are sequentially consistent at the granularity of intercepted operations (atomics, mutexes, channels, syscalls, timers)",
	"coverage is all executions of the listed drivers within the stated preemption/deviation bounds, not all programs",
	"instrumentation is generated from /repo's working tree by a syntactic rewriter (imports redirected to forwarding shims)",
}

var plans = map[string]PropPlan{
	"C09": {
		Quick:     []Plan{{Scenario: "conn.lifecycle", PB: 2, DB: 0}},
		Thorough:  []Plan{{Scenario: "conn.lifecycle", PB: 3, DB: 0}},
		QuickSecs: 90, ThoroughSecs: 900,
		Assumptions: schedAssume,
	},
	"C17": {
		Quick:     []Plan{{Scenario: "mux.shardq", PB: 2, DB: 1}},
		Thorough:  []Plan{{Scenario: "mux.shardq", PB: 3, DB: 2}},
		QuickSecs: 60, ThoroughSecs: 600,
		Assumptions: schedAssume,
	},
}
