#!/usr/bin/env python3
"""Build seeded/<name>/meta.json and seeded/README.md from what tools/seedverify.sh recorded."""
import json, os, re, sys

root = os.path.join(os.path.dirname(os.path.abspath(__file__)), "..", "seeded")
rows = []
for line in open(os.path.join(root, "seeds.tsv")):
    line = line.rstrip("\n")
    if not line:
        continue
    name, prop, checks = line.split("\t")
    d = os.path.join(root, name)
    conf = {}
    if os.path.exists(os.path.join(d, "confirm.json")):
        conf = json.load(open(os.path.join(d, "confirm.json")))
    needs = open(os.path.join(d, "needs.txt")).read().strip()
    note = open(os.path.join(d, "note.txt")).read().strip() if os.path.exists(os.path.join(d, "note.txt")) else ""
    rebased = open(os.path.join(d, "REBASED.txt")).read().strip() if os.path.exists(os.path.join(d, "REBASED.txt")) else ""
    pkg = open(os.path.join(d, ".pkg")).read().strip() if os.path.exists(os.path.join(d, ".pkg")) else "."
    race = "-race " if prop == "C19" else ""
    res = {}
    for c in checks.split():
        f = os.path.join(d, "check-%s.out" % c)
        if not os.path.exists(f):
            continue
        txt = open(f, errors="replace").read()
        sigs = sorted(set(re.findall(r"^violation: (.*)$", txt, re.M)))
        summ = re.findall(r"^check .*$", txt, re.M)
        res[c] = {"reported": bool(re.search(r"^VIOLATION property=%s " % c, txt, re.M)),
                  "signatures": sigs[:8], "summary": summ[-1] if summ else ""}
    kept = bool(conf) and conf.get("demo_with_change_exit", 0) != 0 and conf.get("demo_without_change_exit", 1) == 0 \
        and conf.get("suite_with_change_exit", 1) == 0
    meta = {
        "seed": name, "property": prop,
        "origin": "fresh sub-agent that was given only the text of the property and its own scratch worktree of /repo",
        "needs_to_manifest": needs,
        "note": " ".join(x for x in (note, rebased) if x),
        "what_i_ran": {
            "where": "fresh scratch worktree of /repo HEAD %s under /tmp (removed afterwards), private network namespace" % conf.get("repo_head", "?"),
            "demonstration": "go test %s-vet=off -count=1 -run TestSeed ./%s   with patch.diff applied (must fail) and reverted (must pass)" % (race, pkg),
            "suite": "go build ./... && go test -vet=off -count=1 -timeout 25m -skip TestSeed ./...   with patch.diff applied (must pass)",
            "checks": "git -C /repo apply patch.diff; ./bin/check <id> (quick tier); git -C /repo checkout -- .   (tools/seedverify.sh official; VERIF_REPO=<worktree> gives the same result)",
        },
        "confirmed": conf,
        "kept": kept,
        "checks": res,
        "detected_by": [c for c, r in res.items() if r["reported"]],
    }
    json.dump(meta, open(os.path.join(d, "meta.json"), "w"), indent=1)
    rows.append(meta)

with open(os.path.join(root, "README.md"), "w") as f:
    f.write("# Seeded property-breaking changes\n\n")
    f.write("Each directory holds `patch.diff` (against /repo; never committed there), the demonstration\n"
            "(`zz_seed_demo_test.go.txt`, copy to `<pkg>/zz_seed_demo_test.go`), the author's `NOTES.md` and `meta.json`.\n"
            "Authors were fresh sub-agents that saw only the property text and a scratch worktree. A change is *kept*\n"
            "only if, re-run by me in a fresh worktree, the demonstration fails with it and passes without it and the\n"
            "existing suite passes with it. `tools/seedverify.sh` is the procedure, `seeds.tsv` the list.\n\n")
    f.write("| seed | property | kept | reported by (quick tier) | first signatures |\n|---|---|---|---|---|\n")
    for m in rows:
        det = ", ".join(m["detected_by"]) or ("**missed**" if m["kept"] else "n/a (does not break the property on the current tree)")
        sig = "; ".join(s for c in m["detected_by"] for s in m["checks"][c]["signatures"][:2])
        why = ""
        if not m["kept"]:
            c = m["confirmed"]
            why = " (demo with=%s, without=%s, suite=%s)" % (c.get("demo_with_change_exit"), c.get("demo_without_change_exit"), c.get("suite_with_change_exit")) if c else " (not confirmed yet)"
        f.write("| %s | %s | %s%s | %s | %s |\n" % (m["seed"], m["property"], "yes" if m["kept"] else "no", why, det, sig.replace("|", "\\|")))
    for m in rows:
        if m.get("note"):
            f.write("\n* **%s**: %s\n" % (m["seed"], m["note"]))
    f.write("\nWhat each change needs to manifest is in its `meta.json` (`needs_to_manifest`).\n")
print("seeds:", len(rows), "kept:", sum(1 for m in rows if m["kept"]), "detected:", sum(1 for m in rows if m["detected_by"]))
