package main

import (
	"unsafe"

	"github.com/bytedance/gopkg/lang/mcache"
	"verif/engine/alloc"
	"verif/engine/vsched"
)

// freeAsPoint makes every return of a block to the pool a scheduling point that writes the
// "pool" object, and examinePool() a point that reads it: scenarios whose oracle reads result
// memory (lb.share) need the order "block freed / result examined" to be part of the
// happens-before state, or the state cache would merge the two orders.
var (
	freeAsPoint bool
	poolObjVar  int
)

func poolObj() uintptr { return uintptr(unsafe.Pointer(&poolObjVar)) }

func examinePool(what string) { vsched.Point(vsched.KRead, poolObj(), false, what) }

func init() {
	mcache.MallocHook = alloc.Malloc
	mcache.FreeHook = func(b []byte) {
		if freeAsPoint && cap(b) > 0 {
			vsched.Point(vsched.KWrite, poolObj(), true, "pool.Free")
		}
		alloc.Free(b)
	}
}
