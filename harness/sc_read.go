package main

import (
	"errors"
	"fmt"
	"strings"
	"time"

	"github.com/cloudwego/netpoll"
	"verif/engine/shim/vsyscall"
	"verif/engine/shim/vtime"
	"verif/engine/vsched"
)

// ---- C07: a blocked reader wakes on data, close or timeout - and only then (conn.read) ----

func init() {
	register("conn.read", func(tier string) []Variant {
		var vs []Variant
		for _, conn := range []string{"fdconn", "nilconn"} {
			for _, mode := range []string{"none", "timeout", "deadline", "deadline-past"} {
				if conn == "nilconn" && mode == "none" {
					continue
				}
				for _, chunks := range []string{"3", "2-1", "1-1-1", "5", "2", "0"} {
					for _, end := range []string{"open", "peerclose", "localclose"} {
						if conn == "nilconn" && !(chunks == "2" && end == "open" || chunks == "3" && end == "open") {
							continue
						}
						if mode == "none" && end == "open" && (chunks == "2" || chunks == "0") {
							continue // the reader would legitimately block for ever
						}
						for _, reads := range []string{"3", "3,2"} {
							if reads == "3,2" && !(chunks == "5" || chunks == "3" || chunks == "2-1") {
								continue
							}
							for _, g := range []bool{false, true} {
								if g && (mode == "none" || conn == "nilconn") {
									continue
								}
								conn, mode, chunks, end, reads, g := conn, mode, chunks, end, reads, g
								vs = append(vs, Variant{
									Name: fmt.Sprintf("conn=%s,mode=%s,chunks=%s,end=%s,reads=%s,go123=%v", conn, mode, chunks, end, reads, g),
									Make: func() *vsched.Scenario { return readScenario(conn, mode, chunks, end, reads, g) },
								})
							}
						}
					}
				}
			}
		}
		return vs
	})
}

type readRes struct {
	n        int
	lenStart int
	data     []byte
	err      error
	panicked string
	pastDl   bool // the configured deadline had already passed when the call started
}

func readScenario(connKind, mode, chunks, end, reads string, go123 bool) *vsched.Scenario {
	var conn netpoll.Connection
	var a, b int
	var results []readRes
	var deadline time.Time
	sent := 0
	for _, s := range strings.Split(chunks, "-") {
		sent += int(s[0] - '0')
	}
	sc := &vsched.Scenario{Name: "conn.read", Horizon: 6000}
	sc.Body = func() {
		results = nil
		vtime.Go123 = go123
		netpoll.VerifReset(1)
		a, b = vsyscall.HSocketpair(0)
		vsyscall.Adopt(a)
		var err error
		if connKind == "nilconn" {
			conn, err = netpoll.NewFDConnection(a)
		} else {
			conn, err = netpoll.VerifFDConn(a, "unix")
		}
		if err != nil {
			panic(err)
		}
		c := conn
		switch mode {
		case "timeout":
			c.SetReadTimeout(time.Second)
		case "deadline":
			deadline = vtime.Now().Add(time.Second)
			c.SetReadDeadline(deadline)
		case "deadline-past":
			c.SetReadDeadline(vtime.Now().Add(-time.Second))
		}
		vsched.Go("peer", func() {
			off := 0
			for _, s := range strings.Split(chunks, "-") {
				n := int(s[0] - '0')
				if n > 0 {
					vsyscall.HWrite(b, stream(off, n))
					off += n
				}
			}
			if end == "peerclose" {
				// logged before the action: a LogEvent is a scheduling point, so an entry written
				// after the close could be delayed past the reader's EOF
				vsched.LogEvent("peer:closing")
				vsyscall.HClose(b)
				vsched.LogEvent("peer:closed")
			}
		})
		if end == "localclose" {
			vsched.Go("closer", func() {
				vsched.LogEvent("close-call")
				c.Close()
				vsched.LogEvent("close-ret")
			})
		}
		vsched.Go("reader", func() {
			for i, s := range strings.Split(reads, ",") {
				n := int(s[0] - '0')
				r := readRes{n: n, lenStart: c.Reader().Len()}
				if mode == "deadline" {
					r.pastDl = !vtime.Now().Before(deadline)
				}
				vsched.LogEvent(fmt.Sprintf("read%d:start", i))
				func() {
					defer func() {
						if p := recover(); p != nil {
							if p == vsched.AbortSentinel {
								panic(p)
							}
							r.panicked = fmt.Sprint(p)
						}
					}()
					var p []byte
					p, r.err = c.Reader().Next(n)
					r.data = append([]byte(nil), p...)
				}()
				vsched.LogEvent(fmt.Sprintf("read%d:end", i))
				results = append(results, r)
				if r.err != nil || r.panicked != "" {
					if mode == "none" || i > 0 {
						break
					}
				}
			}
		})
	}
	sc.Outcome = func(ex *vsched.Exec) string {
		var o []string
		for _, r := range results {
			o = append(o, fmt.Sprintf("%d:%s", len(r.data), errClass(r.err)))
		}
		return strings.Join(o, ",")
	}
	sc.Check = func(ex *vsched.Exec) []vsched.Violation {
		// the reader blocked for ever is the lost-wake-up verdict; decide below whether it is legitimate
		vs := baseChecks("C07", ex, true)
		add := func(sig, msg string) { vs = append(vs, vsched.Violation{Sig: "C07 " + sig, Msg: msg}) }
		l := logIdx{ex}
		hasTimer := mode != "none"
		if ex.End == vsched.EndDeadlock {
			// which read is stuck?
			idx := len(results)
			need := 0
			consumed := 0
			rs := strings.Split(reads, ",")
			for i := 0; i < idx && i < len(results); i++ {
				consumed += len(results[i].data)
			}
			if idx < len(rs) {
				need = int(rs[idx][0] - '0')
			}
			closed := end != "open"
			if sent-consumed >= need || closed || hasTimer {
				add("lost-wakeup mode="+mode+" end="+end, fmt.Sprintf("reader blocked for ever in read #%d needing %d bytes although %d are available / closed=%v / timer configured=%v: %s", idx, need, sent-consumed, closed, hasTimer, ex.EndMsg))
			}
			return vs
		}
		if ex.End != vsched.EndQuiescent {
			return vs
		}
		off := 0
		for i, r := range results {
			tag := fmt.Sprintf("read#%d", i)
			if r.panicked != "" {
				add("panic-in-read mode="+mode+" conn="+connKind, fmt.Sprintf("%s panicked: %s", tag, r.panicked))
				continue
			}
			start, endI := l.first(fmt.Sprintf("read%d:start", i)), l.first(fmt.Sprintf("read%d:end", i))
			fired := false
			for j := start; j >= 0 && j <= endI && j < len(ex.Log); j++ {
				if strings.HasPrefix(ex.Log[j].Msg, "timer:fire") {
					fired = true
				}
			}
			peerClosedBefore := l.first("peer:closing") >= 0 && l.first("peer:closing") < endI
			localBefore := l.first("close-call") >= 0 && l.first("close-call") < endI
			switch {
			case r.err == nil:
				want := stream(off, r.n)
				if off+r.n > sent || string(r.data) != string(want) {
					add("bytes", fmt.Sprintf("%s returned nil with %d bytes that are not the next %d bytes of the stream (sent %d, offset %d)", tag, len(r.data), r.n, sent, off))
				}
				off += r.n
			case errors.Is(r.err, netpoll.ErrReadTimeout):
				if !hasTimer {
					add("timeout-without-timer", tag+" returned ErrReadTimeout although no timeout or deadline is set")
				} else if mode != "deadline-past" && !r.pastDl && !fired {
					add("timeout-without-fire mode="+mode, tag+" returned ErrReadTimeout although its timer had not expired during the call")
				}
				if r.lenStart >= r.n {
					add("timeout-with-data", fmt.Sprintf("%s timed out although %d >= %d bytes were buffered when it was called", tag, r.lenStart, r.n))
				}
				if len(r.data) != 0 {
					add("timeout-consumed", tag+" timed out and returned data")
				}
			case errors.Is(r.err, netpoll.ErrEOF):
				if !peerClosedBefore {
					add("eof-without-peer-close", tag+" returned ErrEOF although the peer had not closed")
				}
				if sent-off >= r.n {
					add("eof-with-data", fmt.Sprintf("%s returned ErrEOF although the peer had sent the %d bytes it needs before closing", tag, r.n))
				}
				if !errors.Is(r.err, netpoll.ErrConnClosed) {
					add("eof-not-connclosed", "ErrEOF does not match ErrConnClosed")
				}
			case errors.Is(r.err, netpoll.ErrConnClosed):
				if !localBefore && !peerClosedBefore {
					add("closed-without-close", tag+" returned ErrConnClosed although nobody closed the connection")
				}
			default:
				add("unexpected-error", fmt.Sprintf("%s returned %v", tag, r.err))
			}
		}
		// a timeout consumes nothing: whatever was not returned by a successful read is still buffered (or the conn is closed)
		st := netpoll.VerifState(conn)
		if st.Closing == 0 && st.InputLen != sent-off {
			add("len-after-reads", fmt.Sprintf("after the reads %d bytes are buffered, expected %d (sent %d, consumed %d)", st.InputLen, sent-off, sent, off))
		}
		return vs
	}
	return sc
}

func errClass(err error) string {
	switch {
	case err == nil:
		return "nil"
	case errors.Is(err, netpoll.ErrReadTimeout):
		return "rtimeout"
	case errors.Is(err, netpoll.ErrWriteTimeout):
		return "wtimeout"
	case errors.Is(err, netpoll.ErrEOF):
		return "eof"
	case errors.Is(err, netpoll.ErrConnClosed):
		return "closed"
	case errors.Is(err, netpoll.ErrConcurrentAccess):
		return "concurrent"
	}
	return "other:" + err.Error()
}
