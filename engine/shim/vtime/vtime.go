// Package vtime mirrors the time functions netpoll uses, on a virtual clock:
// every armed timer is a virtual thread whose single step "fire" can be
// scheduled at any point (costing a preemption while other threads can run).
package vtime

import (
	"time"

	"verif/engine/vsched"
)

// Go123 selects the Go >= 1.23 timer-channel semantics (Stop/Reset discard a
// pending tick); false = legacy buffered-1 channel (what the repo's own go.mod selects).
var Go123 = false

var base = time.Date(2026, 1, 1, 0, 0, 0, 0, time.UTC)

//go:norace
func Now() time.Time {
	ex := vsched.Cur()
	if ex == nil {
		return time.Now()
	}
	vsched.Point(vsched.KRead, vsched.ObjClock, false, "time.Now")
	return base.Add(time.Duration(ex.Clock))
}

func Since(t time.Time) time.Duration { return Now().Sub(t) }
func Until(t time.Time) time.Duration { return t.Sub(Now()) }

type Timer struct {
	C    <-chan time.Time
	c    chan time.Time
	real *time.Timer
	ex   *vsched.Exec
	idx  int
	f    func()
}

//go:norace
func NewTimer(d time.Duration) *Timer {
	ex := vsched.Cur()
	if ex == nil {
		rt := time.NewTimer(d)
		return &Timer{C: rt.C, real: rt}
	}
	t := &Timer{c: make(chan time.Time, 1), ex: ex}
	t.C = t.c
	t.idx = ex.NewTimer("timer", t.fire)
	vsched.Point(vsched.KTimerOp, ex.TimerObj(t.idx), true, "NewTimer")
	ex.ArmTimer(t.idx, ex.Clock+int64(d))
	return t
}

//go:norace
func AfterFunc(d time.Duration, f func()) *Timer {
	ex := vsched.Cur()
	if ex == nil {
		return &Timer{real: time.AfterFunc(d, f)}
	}
	t := &Timer{ex: ex, f: f}
	t.idx = ex.NewTimer("afterfunc", t.fire)
	vsched.Point(vsched.KTimerOp, ex.TimerObj(t.idx), true, "AfterFunc")
	ex.ArmTimer(t.idx, ex.Clock+int64(d))
	return t
}

// fire runs in scheduler context.
//
//go:norace
func (t *Timer) fire() {
	if t.f != nil {
		f := t.f
		t.ex.SpawnDetached("afterfunc", f)
		return
	}
	select {
	case t.c <- base.Add(time.Duration(t.ex.Clock)):
	default:
	}
	t.ex.TouchObj(vsched.ChanID(t.c), 1)
}

//go:norace
func (t *Timer) Stop() bool {
	if t.real != nil {
		return t.real.Stop()
	}
	ex := t.ex
	vsched.Point(vsched.KTimerOp, ex.TimerObj(t.idx), true, "Timer.Stop")
	was := ex.DisarmTimer(t.idx)
	if Go123 && t.c != nil {
		select {
		case <-t.c:
			was = true // a tick that nobody received yet counts as pending
			ex.TouchObj(vsched.ChanID(t.c), 2)
		default:
		}
	}
	return was
}

//go:norace
func (t *Timer) Reset(d time.Duration) bool {
	if t.real != nil {
		return t.real.Reset(d)
	}
	ex := t.ex
	vsched.Point(vsched.KTimerOp, ex.TimerObj(t.idx), true, "Timer.Reset")
	was := ex.DisarmTimer(t.idx)
	if Go123 && t.c != nil {
		select {
		case <-t.c:
			was = true
			ex.TouchObj(vsched.ChanID(t.c), 3)
		default:
		}
	}
	ex.ArmTimer(t.idx, ex.Clock+int64(d))
	return was
}

func After(d time.Duration) <-chan time.Time {
	return NewTimer(d).C
}

//go:norace
func Sleep(d time.Duration) {
	if !vsched.Active() {
		time.Sleep(d)
		return
	}
	t := NewTimer(d)
	vsched.WaitRecv(t.C)
	<-t.C
}

// AfterFuncSched arms a timer whose callback runs inline in scheduler context
// (it must not block or reach a scheduling point); used by vcontext.
//
//go:norace
func AfterFuncSched(d time.Duration, f func()) *Timer {
	ex := vsched.Cur()
	t := &Timer{ex: ex}
	t.idx = ex.NewTimer("ctx-deadline", f)
	vsched.Point(vsched.KTimerOp, ex.TimerObj(t.idx), true, "ctx.WithDeadline")
	ex.ArmTimer(t.idx, ex.Clock+int64(d))
	return t
}
