// Package alloc is the instrumented replacement of bytedance/gopkg/lang/mcache
// (substituted through the build overlay): same contract, but every Malloc
// returns a fresh block, Free checks a ledger (double / foreign / interior
// frees), poisons the block and retires it for ever, so use-after-free and
// write-after-free become observable (C02, C03).
package alloc

import (
	"fmt"
	"math/bits"
	"runtime"
	"strings"
	"sync"
	"unsafe"
)

type Block struct {
	Base     uintptr
	Cap      int
	Live     bool
	Site     string
	FreeSite string
	mem      []byte
}

type Ledger struct {
	mu         sync.Mutex
	Blocks     []*Block
	Caller     []callerMem
	Violations []string
	Mallocs    int
	Frees      int
	lastFree   string
}

type callerMem struct {
	base uintptr
	n    int
	name string
}

var (
	// L is the active ledger (nil = plain allocation, nothing recorded).
	L *Ledger
)

const Poison = 0xDE

func Reset() *Ledger {
	L = &Ledger{}
	return L
}

func Disable() { L = nil }

func calcCap(c int) int {
	if c <= 1 {
		return 1
	}
	if c&(c-1) == 0 {
		return c
	}
	return 1 << bits.Len(uint(c))
}

func site() string {
	var pcs [12]uintptr
	n := runtime.Callers(3, pcs[:])
	fr := runtime.CallersFrames(pcs[:n])
	var parts []string
	for {
		f, more := fr.Next()
		fn := f.Function
		if strings.Contains(fn, "netpoll.") && !strings.Contains(fn, "Verif") {
			i := strings.LastIndex(fn, "netpoll.")
			name := fn[i+len("netpoll."):]
			if name != "malloc" && name != "free" {
				parts = append(parts, name)
				if len(parts) == 2 {
					break
				}
			}
		}
		if !more {
			break
		}
	}
	return strings.Join(parts, "<")
}

func Malloc(size int, capacity ...int) []byte {
	if len(capacity) > 1 {
		panic("too many arguments to Malloc")
	}
	c := size
	if len(capacity) > 0 && capacity[0] > size {
		c = capacity[0]
	}
	cp := calcCap(c)
	mem := make([]byte, cp)
	l := L
	if l != nil {
		b := &Block{Base: uintptr(unsafe.Pointer(&mem[0])), Cap: cp, Live: true, mem: mem, Site: site()}
		l.mu.Lock()
		l.Blocks = append(l.Blocks, b)
		l.Mallocs++
		l.mu.Unlock()
	}
	return mem[:size:cp]
}

func Free(buf []byte) {
	size := cap(buf)
	if size == 0 || size&(size-1) != 0 {
		return // the real mcache ignores non-power-of-two capacities
	}
	l := L
	if l == nil {
		return
	}
	p := uintptr(unsafe.Pointer(unsafe.SliceData(buf)))
	l.mu.Lock()
	defer l.mu.Unlock()
	l.Frees++
	fs := site()
	for i := len(l.Blocks) - 1; i >= 0; i-- {
		b := l.Blocks[i]
		if p >= b.Base && p < b.Base+uintptr(b.Cap) {
			if p != b.Base || size != b.Cap {
				l.Violations = append(l.Violations, fmt.Sprintf("foreign-free: interior/resized slice of pool block (off=%d cap=%d of %d, block from %s) freed in %s", p-b.Base, size, b.Cap, b.Site, fs))
				return
			}
			if !b.Live {
				l.Violations = append(l.Violations, fmt.Sprintf("double-free: block from %s freed in %s and again in %s", b.Site, b.FreeSite, fs))
				return
			}
			b.Live = false
			b.FreeSite = fs
			l.lastFree = fs
			for j := range b.mem {
				b.mem[j] = Poison
			}
			return
		}
	}
	for _, c := range l.Caller {
		if p >= c.base && p < c.base+uintptr(c.n) {
			l.Violations = append(l.Violations, fmt.Sprintf("foreign-free: caller-owned memory (%s) returned to the pool in %s", c.name, fs))
			return
		}
	}
	l.Violations = append(l.Violations, fmt.Sprintf("foreign-free: memory not from the pool (cap=%d) returned to the pool in %s", size, fs))
}

// RegisterCaller records caller-owned memory so that a Free of it is attributed.
func (l *Ledger) RegisterCaller(name string, p []byte) {
	if len(p) == 0 {
		return
	}
	l.mu.Lock()
	l.Caller = append(l.Caller, callerMem{base: uintptr(unsafe.Pointer(&p[0])), n: cap(p), name: name})
	l.mu.Unlock()
}

// FreedOverlap reports the retired block (if any) that p points into.
func (l *Ledger) FreedOverlap(p []byte) *Block {
	if len(p) == 0 {
		return nil
	}
	a := uintptr(unsafe.Pointer(&p[0]))
	e := a + uintptr(len(p))
	l.mu.Lock()
	defer l.mu.Unlock()
	for _, b := range l.Blocks {
		if !b.Live && a < b.Base+uintptr(b.Cap) && e > b.Base {
			return b
		}
	}
	return nil
}

// PoisonIntact checks that no retired block was written after it was freed.
func (l *Ledger) PoisonIntact() string {
	l.mu.Lock()
	defer l.mu.Unlock()
	for _, b := range l.Blocks {
		if b.Live {
			continue
		}
		for j, c := range b.mem {
			if c != Poison {
				return fmt.Sprintf("write-after-free: block from %s freed in %s modified at offset %d", b.Site, b.FreeSite, j)
			}
		}
	}
	return ""
}

func (l *Ledger) LiveBlocks() int {
	n := 0
	for _, b := range l.Blocks {
		if b.Live {
			n++
		}
	}
	return n
}

// LastFreeSite is the call site of the most recent Free of a ledger block ("" if none).
func (l *Ledger) LastFreeSite() string {
	l.mu.Lock()
	defer l.mu.Unlock()
	return l.lastFree
}
