package main

import (
	"context"
	"fmt"
	"os"
	"strings"
	"sync/atomic"

	"github.com/cloudwego/netpoll"
	"verif/engine/shim/vsyscall"
	"verif/engine/vsched"
)

// stream returns n position-keyed pseudo-random bytes starting at stream offset off.
func stream(off, n int) []byte {
	p := make([]byte, n)
	for i := range p {
		p[i] = sbyte(off + i)
	}
	return p
}

func sbyte(i int) byte {
	x := uint32(i)*2654435761 + 12345
	x ^= x >> 13
	b := byte(x>>8) | 1 // never 0
	if b == '\n' {
		b = 'n'
	}
	if b == 0xDE || b == 0xDF { // never the allocator's poison value
		b = 0x5D
	}
	return b
}

type logIdx struct{ ex *vsched.Exec }

func (l logIdx) first(msg string) int {
	for i, e := range l.ex.Log {
		if e.Msg == msg {
			return i
		}
	}
	return -1
}

func (l logIdx) firstPrefix(p string) int {
	for i, e := range l.ex.Log {
		if strings.HasPrefix(e.Msg, p) {
			return i
		}
	}
	return -1
}

func (l logIdx) last(msg string) int {
	for i := len(l.ex.Log) - 1; i >= 0; i-- {
		if l.ex.Log[i].Msg == msg {
			return i
		}
	}
	return -1
}

func (l logIdx) count(msg string) int {
	n := 0
	for _, e := range l.ex.Log {
		if e.Msg == msg {
			n++
		}
	}
	return n
}

func (l logIdx) countPrefix(p string) int {
	n := 0
	for _, e := range l.ex.Log {
		if strings.HasPrefix(e.Msg, p) {
			n++
		}
	}
	return n
}

func (l logIdx) step(i int) int { return l.ex.Log[i].Step }

// baseChecks are the verdicts every scheduled scenario shares: termination class,
// netpoll panics, descriptor ledger (C15 is checked in every scenario, reported under the scenario's property unless it is the C15 check).
func baseChecks(prop string, ex *vsched.Exec, allowDeadlock bool) []vsched.Violation {
	var vs []vsched.Violation
	switch ex.End {
	case vsched.EndQuiescent:
	case vsched.EndDeadlock:
		if !allowDeadlock {
			vs = append(vs, vsched.Violation{Sig: prop + " deadlock " + blockedSig(ex), Msg: "threads blocked for ever: " + ex.EndMsg})
		}
	case vsched.EndLivelock:
		vs = append(vs, vsched.Violation{Sig: prop + " livelock " + blockedSig(ex), Msg: "threads spinning for ever: " + strings.Join(ex.Blocked, "; ")})
	case vsched.EndHorizon:
		if ex.HorizonUnfair {
			if os.Getenv("VERIF_DEBUG_HORIZON") != "" {
				vs = append(vs, vsched.Violation{Sig: "DBG unfair-horizon", Msg: ex.EndMsg})
			}
			break // unfair schedule: another thread could have run; inconclusive, counted in the evidence
		}
		vs = append(vs, vsched.Violation{Sig: prop + " nontermination", Msg: "step horizon exceeded: " + ex.EndMsg})
	}
	if os.Getenv("VERIF_DEBUG_LONG") != "" && ex.Steps > 3000 {
		vs = append(vs, vsched.Violation{Sig: "DBG long", Msg: fmt.Sprint(ex.Steps)})
	}
	if os.Getenv("VERIF_DEBUG_THREADS") != "" && len(ex.Threads()) > 15 {
		vs = append(vs, vsched.Violation{Sig: "DBG many-threads", Msg: fmt.Sprint(len(ex.Threads()))})
	}
	for _, p := range ex.Panics {
		vs = append(vs, vsched.Violation{Sig: prop + " panic " + panicSite(p.Stack), Msg: "netpoll panicked: " + p.Val + "\n" + p.Stack})
	}
	if l := vsyscall.L(); l != nil {
		// the descriptor ledger is active in every scheduled scenario; its verdicts belong to C15
		for _, b := range l.BadCloses {
			vs = append(vs, vsched.Violation{Sig: "C15 bad-close scenario=" + strings.SplitN(prop, " ", 2)[0], Msg: b})
		}
		for _, r := range l.Recs {
			if r.Owner == "netpoll" && r.Closes > 1 {
				vs = append(vs, vsched.Violation{Sig: "C15 closed-twice kind=" + r.Kind, Msg: fmt.Sprintf("descriptor %d (%s) was closed %d times by netpoll", r.Fd, r.Kind, r.Closes)})
			}
		}
	}
	return vs
}

// blockedSig names the functions the stuck threads are in (stable under line shifts).
func blockedSig(ex *vsched.Exec) string {
	var names []string
	for _, t := range ex.Threads() {
		if t.Done() || t.Daemon {
			continue
		}
		names = append(names, t.Name+"@"+t.PendingWhat())
	}
	return strings.Join(names, ",")
}

// panicSite extracts the first netpoll function on a panic stack.
func panicSite(stack string) string {
	for _, l := range strings.Split(stack, "\n") {
		if strings.HasPrefix(l, "github.com/cloudwego/netpoll") && !strings.Contains(l, "Verif") {
			if i := strings.Index(l, "("); i > 0 {
				l = l[:i]
			}
			l = strings.TrimPrefix(l, "github.com/cloudwego/netpoll.")
			return l
		}
	}
	return "?"
}

func steps(c netpoll.Connection, n int) {
	for i := 0; i < n; i++ {
		c.IsActive()
	}
}

var _ = context.Background
var _ = fmt.Sprint

// threadRole names a thread by what it is in netpoll (stable under line shifts).
func threadRole(ex *vsched.Exec, id int) string {
	if id < 0 {
		return "timer"
	}
	n := ex.Threads()[id].Name
	switch {
	case n == "task":
		return "handler-task"
	case strings.HasPrefix(n, "go@poll_default.go"):
		return "hangup-goroutine"
	case strings.HasPrefix(n, "go@poll_manager.go"):
		return "poller"
	case strings.HasPrefix(n, "go@"):
		return "goroutine:" + strings.SplitN(strings.TrimPrefix(n, "go@"), ":", 2)[0]
	}
	return n
}

// hbFlag is a harness-level hand-off that the race detector can see (a real atomic, which the
// scheduler does not intercept): the harness must not look like an unsynchronised program when it
// passes objects between its own threads (C19 would otherwise blame netpoll for it).
type hbFlag struct{ v int32 }

func (f *hbFlag) Set()        { atomic.AddInt32(&f.v, 1) }
func (f *hbFlag) Acquire()    { atomic.LoadInt32(&f.v) }
func (f *hbFlag) IsSet() bool { return atomic.LoadInt32(&f.v) > 0 }
func (f *hbFlag) Reset()      { atomic.StoreInt32(&f.v, 0) }
