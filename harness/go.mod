module verif/harness

go 1.21

require (
	github.com/bytedance/gopkg v0.1.1
	github.com/cloudwego/netpoll v0.0.0
	verif/engine v0.0.0
)

require github.com/cloudwego/gopkg v0.1.4 // indirect

replace github.com/cloudwego/netpoll => /repo

replace verif/engine => ../engine
