package main

import (
	"github.com/bytedance/gopkg/lang/mcache"
	"verif/engine/alloc"
)

func init() {
	mcache.MallocHook = alloc.Malloc
	mcache.FreeHook = alloc.Free
}
