// verifw is the worker binary: it runs one scenario variant under the
// controlled scheduler and prints a JSON report.
package main

import (
	"context"
	"encoding/json"
	"flag"
	"fmt"
	"io"
	"os"
	"runtime"
	"runtime/debug"
	"runtime/pprof"
	"sort"
	"strings"
	"time"

	"github.com/cloudwego/netpoll"
	"verif/engine/vsched"
)

type Variant struct {
	Name string
	Make func() *vsched.Scenario                 // scheduled scenario, or
	Run  func(opt vsched.Options) *vsched.Report // a sequential explorer (BFS / enumeration) with its own search
}

var registry = map[string]func(tier string) []Variant{}

func register(name string, f func(tier string) []Variant) { registry[name] = f }

type ReplayFile struct {
	Property string   `json:"property"`
	Scenario string   `json:"scenario"`
	Variant  string   `json:"variant"`
	Sig      string   `json:"sig"`
	Msg      string   `json:"msg"`
	Choices  []int32  `json:"choices"`
	Log      []string `json:"log"`
	Trace    []string `json:"trace"`
	Tier     string   `json:"tier"`
	Go123    bool     `json:"go123"`
}

type WorkerOut struct {
	Scenario string         `json:"scenario"`
	Variant  string         `json:"variant"`
	Report   *vsched.Report `json:"report"`
}

func main() {
	sc := flag.String("scenario", "", "scenario name")
	vname := flag.String("variant", "", "variant name ('' = list)")
	tier := flag.String("tier", "quick", "tier")
	pb := flag.Int("pb", 2, "preemption bound")
	db := flag.Int("db", 1, "deviation bound")
	iterate := flag.Bool("iterate", true, "iterate bounds 0..pb")
	nocache := flag.Bool("nocache", false, "disable happens-before state caching")
	deadline := flag.Int("deadline", 60, "seconds")
	maxExecs := flag.Int64("maxexecs", 0, "max executions")
	replay := flag.String("replay", "", "replay file")
	outp := flag.String("out", "", "output json")
	list := flag.Bool("list", false, "list scenarios/variants")
	cpuprof := flag.String("cpuprofile", "", "write a CPU profile")
	flag.Parse()
	runtime.GOMAXPROCS(1)
	debug.SetGCPercent(400)
	if *cpuprof != "" {
		f, _ := os.Create(*cpuprof)
		pprof.StartCPUProfile(f)
		defer pprof.StopCPUProfile()
	}
	netpoll.SetLoggerOutput(io.Discard)
	netpoll.SetRunner(func(ctx context.Context, f func()) { vsched.Go("task", f) })
	warmup()

	if *list {
		var names []string
		for n := range registry {
			names = append(names, n)
		}
		sort.Strings(names)
		for _, n := range names {
			if *sc != "" && n != *sc {
				continue
			}
			for _, v := range registry[n](*tier) {
				fmt.Printf("%s\t%s\n", n, v.Name)
			}
		}
		return
	}
	if *replay != "" {
		b, err := os.ReadFile(*replay)
		if err != nil {
			fmt.Fprintln(os.Stderr, err)
			os.Exit(2)
		}
		var rf ReplayFile
		if err := json.Unmarshal(b, &rf); err != nil {
			fmt.Fprintln(os.Stderr, err)
			os.Exit(2)
		}
		v := findVariant(rf.Scenario, rf.Variant, rf.Tier)
		if v == nil {
			fmt.Fprintln(os.Stderr, "unknown scenario/variant in replay file")
			os.Exit(2)
		}
		if v.Run != nil {
			// sequential explorers replay an operation list: choices index the variant's op table
			opt := vsched.Options{Prefix: rf.Choices, Trace: true}
			rep := v.Run(opt)
			hit := false
			for _, f := range rep.Found {
				fmt.Printf("verdict: %s: %s\n", f.Sig, f.Msg)
				for _, l := range f.Trace {
					fmt.Println("  ", l)
				}
				if f.Sig == rf.Sig {
					hit = true
				}
			}
			if hit {
				fmt.Printf("VIOLATION property=%s replay=%s\n", rf.Property, *replay)
				os.Exit(1)
			}
			fmt.Println("replay: recorded violation did not occur")
			return
		}
		x, vs := vsched.Replay(v.Make(), rf.Choices)
		for _, l := range x.Trace {
			fmt.Println(l)
		}
		fmt.Println("end:", x.End, x.EndMsg)
		hit := false
		for _, vv := range vs {
			fmt.Printf("verdict: %s: %s\n", vv.Sig, vv.Msg)
			if vv.Sig == rf.Sig {
				hit = true
			}
		}
		if hit {
			fmt.Printf("VIOLATION property=%s replay=%s\n", rf.Property, *replay)
			os.Exit(1)
		}
		fmt.Println("replay: recorded violation did not occur")
		return
	}
	v := findVariant(*sc, *vname, *tier)
	if v == nil {
		fmt.Fprintf(os.Stderr, "unknown scenario %q variant %q\n", *sc, *vname)
		os.Exit(2)
	}
	opt := vsched.Options{PB: *pb, DB: *db, Iterate: *iterate, NoCache: *nocache, MaxExecs: *maxExecs}
	if *deadline > 0 {
		opt.Deadline = time.Now().Add(time.Duration(*deadline) * time.Second)
	}
	var rep *vsched.Report
	if v.Run != nil {
		rep = v.Run(opt)
	} else {
		rep = vsched.Explore(v.Make(), opt)
	}
	o := WorkerOut{Scenario: *sc, Variant: *vname, Report: rep}
	js, _ := json.Marshal(o)
	if *outp != "" {
		os.WriteFile(*outp, js, 0o644)
	} else {
		fmt.Println(string(js))
	}
}

func findVariant(sc, name, tier string) *Variant {
	f := registry[sc]
	if f == nil {
		return nil
	}
	for _, v := range f(tier) {
		if v.Name == name {
			vv := v
			return &vv
		}
	}
	return nil
}

// warmup forces the Go runtime to create its own poller descriptors and timers
// before any descriptor baseline is taken.
func warmup() {
	os.ReadDir("/proc/self/fd")
	time.Sleep(time.Millisecond)
	r, w, _ := os.Pipe()
	r.Close()
	w.Close()
}

func fdCensus() string {
	ents, _ := os.ReadDir("/proc/self/fd")
	var s []string
	for _, e := range ents {
		s = append(s, e.Name())
	}
	return strings.Join(s, ",")
}
