package main

import (
	"fmt"
	"strings"

	"github.com/cloudwego/netpoll"
	"verif/engine/shim/vsyscall"
	"verif/engine/vsched"
)

// ---- C18: the poller pool hands out running pollers of the configured size (pollmgr) ----

func init() {
	register("pollmgr", func(tier string) []Variant {
		var vs []Variant
		for _, n0 := range []int{1, 2} {
			for _, pickers := range []int{2, 3} {
				for _, re := range []string{"none", "grow", "shrink", "random", "grow+shrink", "flap-up", "flap-down"} {
					if (re == "shrink" || re == "flap-down") && n0 == 1 {
						continue
					}
					if pickers == 3 && re == "grow+shrink" {
						continue
					}
					n0, pickers, re := n0, pickers, re
					vs = append(vs, Variant{
						Name: fmt.Sprintf("loops=%d,pickers=%d,reconfig=%s", n0, pickers, re),
						Make: func() *vsched.Scenario { return pollmgrScenario(n0, pickers, re) },
					})
				}
			}
		}
		return vs
	})
}

type pickRec struct {
	phase int
	epfd  int
	p     netpoll.Poll
}

func pollmgrScenario(n0, pickers int, reconfig string) *vsched.Scenario {
	var picks []pickRec
	var seqPicks [][]int // per phase: epfds of the sequential picks
	var configured []int
	var rr []bool
	var handoff hbFlag
	var unserved []int
	sc := &vsched.Scenario{Name: "pollmgr", Horizon: 8000}
	sc.Body = func() {
		picks, seqPicks, configured, rr = nil, nil, nil, nil
		netpoll.VerifReset(n0)
		phases := []string{"init"}
		if reconfig != "none" {
			phases = append(phases, strings.Split(reconfig, "+")...)
		}
		n := n0
		isRR := true
		for ph, what := range phases {
			switch what {
			case "grow":
				n++
				netpoll.SetNumLoops(n)
			case "shrink":
				n--
				netpoll.SetNumLoops(n)
			case "random":
				netpoll.SetLoadBalance(netpoll.Random)
				isRR = false
			case "flap-up": // two settings in one gap: the last one counts
				netpoll.SetNumLoops(n + 1)
				netpoll.SetNumLoops(n)
			case "flap-down":
				netpoll.SetNumLoops(n - 1)
				netpoll.SetNumLoops(n)
			}
			configured = append(configured, n)
			rr = append(rr, isRR)
			done := 0
			for i := 0; i < pickers; i++ {
				ph := ph
				vsched.Go(fmt.Sprintf("picker%d.%d", ph, i), func() {
					p := netpoll.VerifPick()
					fd, _ := netpoll.VerifPollFds(p)
					picks = append(picks, pickRec{phase: ph, epfd: fd, p: p})
					done++
					handoff.Set()
				})
			}
			vsched.WaitCond("pickers-done", func() bool { return done == pickers })
			handoff.Acquire() // the phase boundary is synchronised, as the contract requires of the caller
			vsched.Settle(fmt.Sprintf("phase%d", ph))
			// consecutive picks from one goroutine: round-robin evenness
			var sp []int
			for i := 0; i < 2*n; i++ {
				fd, _ := netpoll.VerifPollFds(netpoll.VerifPick())
				sp = append(sp, fd)
			}
			seqPicks = append(seqPicks, sp)
			vsched.Settle(fmt.Sprintf("phase%d-seq", ph))
			vsched.LogEvent(fmt.Sprintf("phase%d:%s loops=%d", ph, what, n))
		}
		// end to end: every poller of the final pool has a loop that serves it - a wake-up written to
		// its eventfd is read (counting goroutines cannot tell a poller without a loop from one
		// whose loop waits on another poller's descriptors)
		_, _, polls := netpoll.VerifManagerState()
		unserved = nil
		for _, p := range polls {
			_, ev := netpoll.VerifPollFds(p)
			before := vsyscall.L().EventfdReadsBy[ev]
			p.Trigger()
			vsched.Settle("after-trigger")
			if vsyscall.L().EventfdReadsBy[ev] == before {
				unserved = append(unserved, ev)
			}
		}
	}
	sc.Outcome = func(ex *vsched.Exec) string {
		var o []string
		for _, p := range picks {
			o = append(o, fmt.Sprintf("%d:%d", p.phase, p.epfd))
		}
		return strings.Join(o, ",")
	}
	sc.Check = func(ex *vsched.Exec) []vsched.Violation {
		vs := baseChecks("C18", ex, false)
		add := func(sig, msg string) { vs = append(vs, vsched.Violation{Sig: "C18 " + sig, Msg: msg}) }
		if ex.End != vsched.EndQuiescent {
			return vs
		}
		led := vsyscall.L()
		open := map[int]bool{}
		closedTwice := false
		for _, r := range led.Recs {
			if r.Kind == "epoll" || r.Kind == "eventfd" {
				c := r.Closes
				if c < 0 { // closed by teardown only: still open at the end of the run
					open[r.Fd] = true
					continue
				}
				if c == 0 {
					open[r.Fd] = true
				}
				if c > 1 {
					closedTwice = true
				}
			}
		}
		if closedTwice {
			add("poller-fd-closed-twice", "a poller descriptor was closed twice")
		}
		liveLoops := 0
		for _, t := range ex.Threads() {
			if strings.HasPrefix(t.Name, "go@poll_manager.go") && !t.Done() {
				liveLoops++
			}
		}
		last := len(configured) - 1
		_, _, polls := netpoll.VerifManagerState()
		if len(polls) != configured[last] {
			add("pool-size", fmt.Sprintf("pool holds %d pollers, %d configured", len(polls), configured[last]))
		}
		if len(unserved) > 0 {
			add("poller-without-loop", fmt.Sprintf("pollers with wake-up descriptors %v are part of the pool (Pick hands them out) but no loop serves them: a wake-up written to them is never read", unserved))
		}
		if liveLoops != configured[last] {
			add("running-loops", fmt.Sprintf("%d poller loops are running, %d configured (surplus loops must exit, missing ones must be started)", liveLoops, configured[last]))
		}
		openEp := 0
		for fd := range open {
			_ = fd
			openEp++
		}
		if openEp != 2*configured[last] {
			add("poller-descriptors", fmt.Sprintf("%d poller descriptors are open at the end, want %d (epoll+eventfd per configured loop)", openEp, 2*configured[last]))
		}
		// every pick of the last phase returned a poller that is still running
		cur := map[int]bool{}
		for _, p := range polls {
			fd, _ := netpoll.VerifPollFds(p)
			cur[fd] = true
		}
		for _, p := range picks {
			if p.phase == last && (!cur[p.epfd] || !open[p.epfd]) {
				add("picked-dead-poller", fmt.Sprintf("Pick in phase %d returned a poller (epoll fd %d) that is not part of the running pool", p.phase, p.epfd))
			}
		}
		for ph, sp := range seqPicks {
			if !rr[ph] {
				continue
			}
			// All picks of one phase draw consecutive values of one counter: the concurrent ones
			// first (they have all returned before the sequential ones start), then the
			// sequential ones in order. Every prefix of that sequence is therefore a contiguous
			// range of the round-robin and must be even over the configured pollers.
			cnt := map[int]int{}
			for _, p := range picks {
				if p.phase == ph {
					cnt[p.epfd]++
				}
			}
			spread := func() int {
				mn, mx := 1<<30, 0
				for _, c := range cnt {
					if c < mn {
						mn = c
					}
					if c > mx {
						mx = c
					}
				}
				if len(cnt) < configured[ph] {
					mn = 0
				}
				return mx - mn
			}
			if d := spread(); d > 1 {
				add("round-robin-uneven", fmt.Sprintf("phase %d: per-poller counts of the %d concurrent picks differ by %d", ph, pickers, d))
			}
			for j, fd := range sp {
				cnt[fd]++
				if d := spread(); d > 1 {
					add("round-robin-uneven", fmt.Sprintf("phase %d: per-poller counts of the %d concurrent picks plus the next %d consecutive picks differ by %d", ph, pickers, j+1, d))
					break
				}
			}
			if len(cnt) != configured[ph] {
				add("round-robin-coverage", fmt.Sprintf("phase %d: %d picks used %d distinct pollers, %d configured", ph, pickers+len(sp), len(cnt), configured[ph]))
			}
		}
		return vs
	}
	return sc
}
