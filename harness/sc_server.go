package main

import (
	"context"
	"fmt"
	"net"
	"os"
	"strings"
	"time"

	"github.com/cloudwego/netpoll"
	"verif/engine/shim/vcontext"
	"verif/engine/shim/vsyscall"
	"verif/engine/vsched"
)

// ---- C13: the server tracks every accepted connection and shuts down gracefully (server) ----

var srvCounter int

func init() {
	register("server", func(tier string) []Variant {
		var vs []Variant
		clientScripts := []string{"connect", "connect+close", "connect+send", "connect+send+close"}
		addv := func(pollers int, c1, c2, sd string, emfile bool) {
			vs = append(vs, Variant{
				Name: fmt.Sprintf("pollers=%d,client1=%s,client2=%s,shutdown=%s,emfile=%v", pollers, c1, c2, sd, emfile),
				Make: func() *vsched.Scenario { return serverScenario(pollers, c1, c2, sd, emfile) },
			})
		}
		for _, c1 := range clientScripts {
			for _, sd := range []string{"none", "shutdown", "shutdown-deadline"} {
				addv(1, c1, "-", sd, false)
			}
			addv(1, c1, "-", "none", true)
		}
		for _, c1 := range []string{"connect+close", "connect+send+close", "connect+send"} {
			for _, sd := range []string{"none", "shutdown"} {
				addv(2, c1, "-", sd, false)
			}
		}
		addv(2, "connect+close", "connect+send", "none", false)
		addv(2, "connect+close", "connect", "none", false)
		addv(2, "connect+close", "connect", "shutdown", false)
		addv(1, "connect+close", "connect+send", "none", false)
		// a handler that is still running when Shutdown's deadline passes, next to an idle connection
		// (both orders of acceptance): the idle one has to be closed, the busy one left running
		addv(1, "connect+hold", "connect", "shutdown-deadline", false)
		addv(1, "connect", "connect+hold", "shutdown-deadline", false)
		addv(1, "connect+hold", "-", "shutdown-deadline", false)
		if tier == "thorough" {
			addv(2, "connect+close", "connect+send", "shutdown", false)
			addv(1, "connect+send", "connect+close", "shutdown", false)
		}
		return vs
	})
}

func serverScenario(pollers int, c1, c2, shutdown string, emfile bool) *vsched.Scenario {
	var evl netpoll.EventLoop
	var srv *netpoll.VerifServer
	var lfd int
	var serveErr, shutErr error
	var serveRet, shutRet bool
	var clientFds []int
	var connected int
	var ctxFired bool
	var retTracked, retOpen, retBusy []int // at the moment Shutdown returned nil: tracked descriptors, open accepted descriptors, descriptors with a user callback executing
	var inCallback map[int]int
	var released bool // set once Shutdown has returned: handlers that hold may finish
	var holdFd int
	settled := strings.Contains(c1+c2, "hold")
	sc := &vsched.Scenario{Name: "server", Horizon: 10000}
	sc.Body = func() {
		srv, serveErr, shutErr, serveRet, shutRet, clientFds, connected, ctxFired = nil, nil, nil, false, false, nil, 0, false
		retTracked, retOpen, retBusy = nil, nil, nil
		inCallback = map[int]int{}
		released, holdFd = false, -1
		netpoll.VerifReset(pollers)
		srvCounter++
		name := fmt.Sprintf("verif-%d-%d", os.Getpid(), srvCounter)
		lfd = vsyscall.HListenUnix(name, 8)
		vsyscall.Adopt(lfd)
		vsyscall.L().Dev.AcceptEMFILE = emfile
		ln := netpoll.VerifNewListener(lfd, &net.UnixAddr{Net: "unix", Name: "@" + name})
		var err error
		evl, err = netpoll.NewEventLoop(func(ctx context.Context, c netpoll.Connection) error {
			fd := netpoll.VerifState(c).Fd
			inCallback[fd]++
			vsched.LogEvent(fmt.Sprintf("request:start fd=%d", fd))
			r := c.Reader()
			p, _ := r.Next(r.Len())
			hold := len(p) > 0 && p[0] == 'H'
			r.Release()
			if hold {
				holdFd = fd
				vsched.WaitCond("handler-release", func() bool { return released })
			}
			steps(c, 1)
			vsched.LogEvent("request:end")
			inCallback[fd]--
			return nil
		}, netpoll.WithOnPrepare(func(c netpoll.Connection) context.Context {
			vsched.LogEvent(fmt.Sprintf("prepare fd=%d", netpoll.VerifState(c).Fd))
			return context.Background()
		}), netpoll.WithOnConnect(func(ctx context.Context, c netpoll.Connection) context.Context {
			fd := netpoll.VerifState(c).Fd
			inCallback[fd]++
			vsched.LogEvent(fmt.Sprintf("connect fd=%d", fd))
			inCallback[fd]--
			return ctx
		}))
		if err != nil {
			panic(err)
		}
		e := evl
		vsched.Go("serve", func() {
			serveErr = e.Serve(ln)
			_ = serveErr
			serveRet = true
			vsched.LogEvent("serve:ret")
		})
		vsched.WaitCond("server-attached", func() bool {
			if s := netpoll.VerifServerOf(e); s != nil {
				srv = s
				return true
			}
			return false
		})
		client := func(id int, script string) {
			vsched.Go(fmt.Sprintf("client%d", id), func() {
				var fd int
				for _, act := range strings.Split(script, "+") {
					switch act {
					case "connect":
						var err error
						fd, err = vsyscall.HConnectUnix(name)
						if err != nil {
							vsched.LogEvent(fmt.Sprintf("client%d:connect-failed", id))
							return
						}
						clientFds = append(clientFds, fd)
						connected++
						vsched.LogEvent(fmt.Sprintf("client%d:connected", id))
					case "send":
						vsyscall.HWrite(fd, stream(0, 4))
					case "hold":
						vsyscall.HWrite(fd, []byte("HOLD")) // the handler for this request blocks until Shutdown has returned
					case "close":
						vsyscall.HClose(fd)
						vsched.LogEvent(fmt.Sprintf("client%d:closed", id))
					}
				}
			})
		}
		client(1, c1)
		if c2 != "-" {
			client(2, c2)
		}
		if shutdown != "none" {
			vsched.Go("shutdown", func() {
				ctx := context.Background()
				if shutdown == "shutdown-deadline" {
					var cancel context.CancelFunc
					ctx, cancel = vcontext.WithTimeout(ctx, 300*time.Millisecond)
					defer cancel()
				}
				if settled {
					// everything that can finish has finished: idle connections are idle, the holding
					// handler is parked inside user code
					vsched.Settle("before-shutdown")
				}
				vsched.LogEvent("shutdown:call")
				shutErr = e.Shutdown(ctx)
				if shutErr == nil && srv != nil {
					// the state the caller is promised at this very moment
					retTracked, _ = srv.TrackedPlain()
					for _, r := range vsyscall.L().Recs {
						if r.Kind == "accepted" && r.Open {
							retOpen = append(retOpen, r.Fd)
							if inCallback[r.Fd] > 0 {
								retBusy = append(retBusy, r.Fd)
							}
						}
					}
				}
				ctxFired = ctx.Err() != nil
				shutRet = true
				released = true
				vsched.LogEvent("shutdown:ret " + fmt.Sprint(shutErr))
			})
		}
	}
	sc.Outcome = func(ex *vsched.Exec) string {
		var o []string
		for _, e := range ex.Log {
			if !strings.HasPrefix(e.Msg, "request:") {
				o = append(o, e.Msg)
			}
		}
		return strings.Join(o, ";")
	}
	sc.Check = func(ex *vsched.Exec) []vsched.Violation {
		// Serve blocks until Shutdown: that is not a lost wake-up
		vs := baseChecks("C13", ex, true)
		add := func(sig, msg string) { vs = append(vs, vsched.Violation{Sig: "C13 " + sig, Msg: msg}) }
		l := logIdx{ex}
		if ex.End == vsched.EndDeadlock {
			bad := false
			for _, t := range ex.Threads() {
				if t.Done() || t.Daemon {
					continue
				}
				if t.Name == "serve" && shutdown == "none" {
					continue
				}
				bad = true
			}
			if bad {
				add("blocked "+blockedSig(ex), "threads blocked for ever: "+ex.EndMsg)
				return vs
			}
		} else if ex.End != vsched.EndQuiescent {
			return vs
		}
		if srv == nil {
			return vs
		}
		fds, active := srv.TrackedPlain()
		// every tracked entry is an active connection (a closed one tracked for ever blocks Shutdown)
		for i, fd := range fds {
			if !active[i] {
				add("closed-connection-tracked", fmt.Sprintf("the server still tracks descriptor %d although that connection is closed", fd))
			}
		}
		// every accepted connection went through OnPrepare and (if it was still alive) OnConnect
		led := vsyscall.L()
		accepted := 0
		for _, r := range led.Recs {
			if r.Kind == "accepted" {
				accepted++
				if l.count(fmt.Sprintf("prepare fd=%d", r.Fd)) == 0 {
					add("accepted-without-prepare", fmt.Sprintf("descriptor %d was accepted but OnPrepare never ran for it", r.Fd))
				}
			}
		}
		// an accepted connection stays tracked until it is closed
		tracked := map[int]bool{}
		for _, fd := range fds {
			tracked[fd] = true
		}
		for _, r := range led.Recs {
			if r.Kind == "accepted" && r.Closes <= 0 && !tracked[r.Fd] && l.last(fmt.Sprintf("connect fd=%d", r.Fd)) >= 0 {
				add("live-connection-untracked", fmt.Sprintf("accepted connection on descriptor %d is still open (OnConnect ran) but the server no longer tracks it", r.Fd))
			}
		}
		if shutdown == "none" && !emfile && accepted != connected {
			add("not-accepted", fmt.Sprintf("%d clients connected but %d connections were accepted at quiescence", connected, accepted))
		}
		if emfile && accepted != connected {
			add("not-accepted-after-emfile", fmt.Sprintf("accept failed with EMFILE for a while; %d clients connected but only %d were ever accepted", connected, accepted))
		}
		// was a connection still on its way through the accept path when Shutdown swept the map?
		cause := ""
		sc0 := l.first("shutdown:call")
		for _, fd := range fds {
			ci := l.last(fmt.Sprintf("connect fd=%d", fd)) // the number may have been used by an earlier connection
			if sc0 >= 0 && (ci < 0 || ci > sc0) {
				cause = " cause=accept-in-flight"
			}
		}
		if shutRet {
			if shutErr == nil {
				if len(fds) != 0 {
					add("shutdown-nil-with-tracked"+cause, fmt.Sprintf("Shutdown returned nil while %d connections are still tracked", len(fds)))
				}
				if !serveRet {
					add("shutdown-nil-serve-running", "Shutdown returned nil but Serve has not returned")
				}
				for _, r := range led.Recs {
					if (r.Kind == "accepted" || strings.HasPrefix(r.Kind, "listener")) && r.Closes != 1 {
						add("shutdown-nil-fd-open"+cause, fmt.Sprintf("Shutdown returned nil but server-side descriptor %d (%s) was closed %d times", r.Fd, r.Kind, r.Closes))
					}
				}
				// "leaves busy ones running, returns nil only when no tracked connection remains": a
				// connection whose user callback is still executing (for as long as the user likes)
				// when Shutdown returns nil. (A teardown already in progress in another goroutine
				// completes by itself; like Serve's own return it is judged at quiescence, above.)
				if len(retBusy) != 0 {
					causeBusy := ""
					for _, fd := range retBusy {
						// the connection was still on its way through the accept path when Shutdown was
						// called (OnConnect is started at the very end of it)
						ci := l.last(fmt.Sprintf("connect fd=%d", fd))
						if sc0 >= 0 && (ci < 0 || ci > sc0) {
							causeBusy = " cause=accept-in-flight"
						}
					}
					add("shutdown-nil-while-handler-running"+causeBusy, fmt.Sprintf("Shutdown returned nil while user callbacks were still executing on descriptors %v (tracked at that moment: %v, open: %v)", retBusy, retTracked, retOpen))
				}
			} else {
				if shutdown != "shutdown-deadline" || !ctxFired {
					add("shutdown-error-without-deadline", fmt.Sprintf("Shutdown returned %v although its context had not expired", shutErr))
				}
			}
		} else if shutdown != "none" && ex.End == vsched.EndQuiescent {
			add("shutdown-never-returned", "Shutdown did not return")
		}
		if shutRet && sc0 >= 0 && settled {
			// (only where Shutdown was called at quiescence, so that "idle" is unambiguous)
			// "closes idle connections, leaves busy ones running" - also when it gives up at its deadline
			for _, r := range led.Recs {
				if r.Kind != "accepted" {
					continue
				}
				ci := l.last(fmt.Sprintf("connect fd=%d", r.Fd))
				everBusy := l.count(fmt.Sprintf("request:start fd=%d", r.Fd)) > 0
				if ci >= 0 && ci < sc0 && !everBusy && r.Closes <= 0 && r.Fd != holdFd {
					add("idle-connection-left-open", fmt.Sprintf("Shutdown returned (%v) but the idle connection on descriptor %d, fully accepted before the call and never busy, was not closed", shutErr, r.Fd))
				}
			}
		}
		return vs
	}
	return sc
}

var _ = time.Second
