package main

import (
	"context"
	"errors"
	"fmt"
	"io"
	"strings"
	"syscall"

	"github.com/cloudwego/netpoll"
	"verif/engine/shim/vsyscall"
	"verif/engine/vsched"
)

// ---- C04: a connection delivers the sender's byte stream intact (conn.recv, conn.send) ----

func init() {
	register("conn.recv", func(tier string) []Variant {
		var vs []Variant
		mixes := []string{"next5", "peek-skip-next", "readbinary-byte", "slice", "read7", "until", "next1", "handler4"}
		for _, chunks := range []string{"12", "5-7", "4-4-4", "1-11"} {
			for _, mix := range mixes {
				for _, short := range []bool{false, true} {
					if short && !(chunks == "12" || chunks == "5-7") {
						continue
					}
					chunks, mix, short := chunks, mix, short
					vs = append(vs, Variant{
						Name: fmt.Sprintf("chunks=%s,reader=%s,shortreads=%v", chunks, mix, short),
						Make: func() *vsched.Scenario { return recvScenario(chunks, mix, short) },
					})
				}
			}
		}
		// the receiving connection has output of its own stuck in the poller (its peer does not read)
		// when the peer's last bytes and its close arrive: they are still all readable before EOF
		for _, chunks := range []string{"12", "5-7"} {
			for _, mix := range []string{"next5", "handler4"} {
				chunks, mix := chunks, mix
				vs = append(vs, Variant{
					Name: fmt.Sprintf("chunks=%s,reader=%s,shortreads=false,pending-output=true", chunks, mix),
					Make: func() *vsched.Scenario { return recvScenarioOut(chunks, mix, false, true) },
				})
			}
		}
		return vs
	})
	// the same drivers, built with statement-level scheduling points inside the LinkBuffer
	// methods (instrumenter option -fine): a focused subset, lower preemption bound
	register("conn.recv.fine", func(tier string) []Variant {
		var vs []Variant
		for _, chunks := range []string{"5-7", "12"} {
			for _, mix := range []string{"next5", "peek-skip-next", "slice", "read7", "readbinary-byte"} {
				chunks, mix := chunks, mix
				vs = append(vs, Variant{
					Name: fmt.Sprintf("chunks=%s,reader=%s,shortreads=false", chunks, mix),
					Make: func() *vsched.Scenario { return recvScenario(chunks, mix, false) },
				})
			}
		}
		return vs
	})
	register("conn.send.fine", func(tier string) []Variant {
		var vs []Variant
		for _, mix := range []string{"malloc", "direct", "append", "mixed"} {
			for _, short := range []bool{false, true} {
				mix, short := mix, short
				vs = append(vs, Variant{
					Name: fmt.Sprintf("writer=%s,messages=1,shortwrites=%v", mix, short),
					Make: func() *vsched.Scenario { return sendScenario(mix, 1, short) },
				})
			}
		}
		return vs
	})
	register("conn.send", func(tier string) []Variant {
		var vs []Variant
		mixes := []string{"malloc", "binary-small", "binary-large", "string-large", "bytes", "direct", "append", "write", "mixed"}
		for _, mix := range mixes {
			for _, msgs := range []int{1, 2} {
				for _, short := range []bool{false, true} {
					if short && msgs == 2 {
						continue
					}
					mix, msgs, short := mix, msgs, short
					vs = append(vs, Variant{
						Name: fmt.Sprintf("writer=%s,messages=%d,shortwrites=%v", mix, msgs, short),
						Make: func() *vsched.Scenario { return sendScenario(mix, msgs, short) },
					})
				}
			}
		}
		return vs
	})
}

func recvScenario(chunks, mix string, short bool) *vsched.Scenario {
	return recvScenarioOut(chunks, mix, short, false)
}

func recvScenarioOut(chunks, mix string, short, pendingOut bool) *vsched.Scenario {
	var got []byte
	var firstErr error
	var errAt int
	total := 12
	sc := &vsched.Scenario{Name: "conn.recv", Horizon: 20000}
	sc.Body = func() {
		got, firstErr, errAt = nil, nil, -1
		netpoll.VerifReset(1)
		netpoll.LinkBufferCap = 4
		netpoll.Configure(netpoll.Config{BufferSize: 4, LoadBalance: netpoll.RoundRobin})
		sndbuf := 0
		if pendingOut {
			sndbuf = 4096
		}
		a, b := vsyscall.HSocketpair(sndbuf)
		vsyscall.Adopt(a)
		vsyscall.L().Dev.ReadShort = short
		c, err := netpoll.VerifFDConn(a, "unix")
		if err != nil {
			panic(err)
		}
		outStuck := !pendingOut
		if pendingOut {
			vsched.Go("writer", func() {
				w := c.Writer()
				p, _ := w.Malloc(20000)
				copy(p, stream(1000, 20000))
				vsched.LogEvent("writer:flush")
				outStuck = true
				err := w.Flush() // the peer never reads: ends with an error when the peer closes
				vsched.LogEvent("writer:flush-ret " + errClass(err))
			})
		}
		vsched.Go("peer", func() {
			if pendingOut {
				// wait until the writer's flush has been handed to the poller (write interest registered)
				vsched.WaitCond("output-stuck", func() bool {
					return outStuck && netpoll.VerifState(c).OutputLen > 0 && vsyscall.L().HasWriteInterest(a)
				})
			}
			off := 0
			for _, s := range strings.Split(chunks, "-") {
				var n int
				fmt.Sscanf(s, "%d", &n)
				p := stream(off, n)
				if mix == "until" { // plant delimiters
					for i := range p {
						if (off+i)%6 == 5 {
							p[i] = '\n'
						}
					}
				}
				vsyscall.HWrite(b, p)
				off += n
			}
			vsyscall.HClose(b)
			vsched.LogEvent("peer:closed")
		})
		if mix == "handler4" {
			// the receiver is an OnRequest handler that takes one frame (<= 4 bytes) per invocation
			c.AddCloseCallback(func(netpoll.Connection) error { vsched.LogEvent("closecb"); return nil })
			c.SetOnRequest(func(ctx context.Context, conn netpoll.Connection) error {
				r := conn.Reader()
				n := r.Len()
				if n > 4 {
					n = 4
				}
				if n == 0 {
					return nil
				}
				p, err := r.Next(n)
				if err != nil {
					if firstErr == nil {
						firstErr, errAt = err, len(got)
					}
					conn.Close()
					return nil
				}
				got = append(got, p...)
				r.Release()
				return nil
			})
			return
		}
		vsched.Go("reader", func() {
			r := c.Reader()
			fail := func(err error) bool {
				if err != nil && firstErr == nil {
					firstErr = err
					errAt = len(got)
					vsched.LogEvent("reader:error " + errClass(err))
				}
				return err != nil
			}
			for len(got) < total+1 && firstErr == nil {
				switch mix {
				case "next5":
					p, err := r.Next(4)
					if fail(err) {
						break
					}
					got = append(got, p...)
					r.Release()
				case "next1":
					p, err := r.Next(1)
					if fail(err) {
						break
					}
					got = append(got, p...)
					if len(got)%4 == 0 {
						r.Release()
					}
				case "peek-skip-next":
					p, err := r.Peek(3)
					if fail(err) {
						break
					}
					pk := append([]byte(nil), p...)
					if fail(r.Skip(1)) {
						break
					}
					q, err := r.Next(3)
					if fail(err) {
						break
					}
					got = append(got, pk[0])
					got = append(got, q...)
					if string(q[:2]) != string(pk[1:3]) {
						got = append(got, 0xEE) // peeked bytes disagree with what Next returned
					}
					r.Release()
				case "readbinary-byte":
					p, err := r.ReadBinary(3)
					if fail(err) {
						break
					}
					got = append(got, p...)
					x, err := r.ReadByte()
					if fail(err) {
						break
					}
					got = append(got, x)
				case "slice":
					s, err := r.Slice(4)
					if fail(err) {
						break
					}
					p, err := s.Next(4)
					if fail(err) {
						break
					}
					got = append(got, p...)
					s.Release()
				case "read7":
					p := make([]byte, 7)
					n, err := c.Read(p)
					got = append(got, p[:n]...)
					if fail(err) {
						break
					}
				case "until":
					p, err := r.Until('\n')
					got = append(got, p...)
					if fail(err) {
						break
					}
					r.Release()
				}
			}
			c.Close()
		})
	}
	sc.Outcome = func(ex *vsched.Exec) string {
		return fmt.Sprintf("got=%d err=%s@%d", len(got), errClass(firstErr), errAt)
	}
	sc.Check = func(ex *vsched.Exec) []vsched.Violation {
		vs := baseChecks("C04", ex, false)
		add := func(sig, msg string) { vs = append(vs, vsched.Violation{Sig: "C04 " + sig, Msg: msg}) }
		if ex.End != vsched.EndQuiescent {
			return vs
		}
		want := stream(0, total)
		if mix == "until" {
			for i := range want {
				if i%6 == 5 {
					want[i] = '\n'
				}
			}
		}
		if len(got) > total || string(got) != string(want[:len(got)]) {
			add("recv-stream reader="+mix, fmt.Sprintf("the reader obtained %d bytes that are not a prefix of the %d bytes the peer sent (first diff at %d)", len(got), total, firstDiff(got, want)))
		}
		// every byte sent before the peer closed is readable before end-of-stream is reported
		rem := total - len(got)
		if mix == "handler4" {
			if firstErr != nil {
				add("recv-error reader="+mix, fmt.Sprintf("the handler's Next failed with %v after %d bytes", firstErr, len(got)))
			} else if rem > 0 {
				add("handler-stream-truncated", fmt.Sprintf("the peer sent %d bytes and closed; the OnRequest handler was offered only the first %d before the connection was torn down (closecb logged: %v)", total, len(got), logIdx{ex}.first("closecb") >= 0))
			}
			return vs
		}
		if firstErr != nil && (errors.Is(firstErr, netpoll.ErrEOF) || firstErr == io.EOF) {
			unit := map[string]int{"next5": 4, "next1": 1, "peek-skip-next": 3, "readbinary-byte": 3, "slice": 4, "read7": 1, "until": 1}[mix]
			if mix == "peek-skip-next" {
				unit = 3
			}
			if rem >= unit && !(mix == "until" && rem < 6) {
				add("eof-before-data reader="+mix, fmt.Sprintf("end-of-stream reported after %d of %d bytes although %d more (>= the %d the call needs) had been sent before the peer closed", len(got), total, rem, unit))
			}
		} else if firstErr != nil {
			add("recv-error reader="+mix, fmt.Sprintf("reader failed with %v after %d bytes", firstErr, len(got)))
		}
		return vs
	}
	return sc
}

func sendScenario(mix string, msgs int, short bool) *vsched.Scenario {
	var recv []byte
	var want []byte
	var flushErr error
	var done bool
	sc := &vsched.Scenario{Name: "conn.send", Horizon: 20000}
	sc.Body = func() {
		recv, want, flushErr, done = nil, nil, nil, false
		netpoll.VerifReset(1)
		netpoll.LinkBufferCap = 4096
		a, b := vsyscall.HSocketpair(4096)
		vsyscall.Adopt(a)
		vsyscall.L().Dev.SendShort = short
		c, err := netpoll.VerifFDConn(a, "unix")
		if err != nil {
			panic(err)
		}
		off := 0
		gen := func(n int) []byte {
			p := stream(off, n)
			off += n
			want = append(want, p...)
			return p
		}
		vsched.Go("writer", func() {
			w := c.Writer()
			for m := 0; m < msgs && flushErr == nil; m++ {
				switch mix {
				case "malloc":
					p, _ := w.Malloc(9000)
					copy(p, gen(9000))
				case "binary-small":
					w.WriteBinary(gen(100))
					w.WriteBinary(gen(4096))
					w.WriteBinary(gen(5000 - 4196 + 4196))
				case "binary-large":
					w.WriteBinary(gen(9000))
				case "string-large":
					w.WriteString(string(gen(9000)))
				case "bytes":
					for i := 0; i < 5; i++ {
						w.WriteByte(gen(1)[0])
					}
					p, _ := w.Malloc(9000)
					copy(p, gen(9000))
				case "direct":
					p, _ := w.Malloc(16)
					head := gen(8)
					mid := gen(9000)
					tail := gen(8)
					copy(p[:8], head)
					copy(p[8:], tail)
					w.WriteDirect(mid, 8)
				case "append":
					lb := netpoll.NewLinkBuffer()
					q, _ := lb.Malloc(4000)
					p0, _ := w.Malloc(10)
					copy(p0, gen(10))
					copy(q, gen(4000))
					lb.Flush()
					lb.WriteBinary(gen(6000))
					w.Append(lb)
				case "write":
					n, err := c.Write(gen(9000))
					if err != nil || n != 9000 {
						flushErr = fmt.Errorf("Write = %d, %v", n, err)
					}
					continue
				case "mixed":
					p, _ := w.Malloc(3)
					copy(p, gen(3))
					w.WriteBinary(gen(5000))
					w.WriteByte(gen(1)[0])
					w.WriteString(string(gen(4097)))
					p2, _ := w.Malloc(20)
					copy(p2, gen(20))
					w.MallocAck(w.MallocLen() - 8)
					want = want[:len(want)-8]
					off -= 8
				}
				if err := w.Flush(); err != nil {
					flushErr = err
				}
			}
			done = true
			vsched.LogEvent("writer:done " + errClass(flushErr))
		})
		vsched.Go("peer", func() {
			buf := make([]byte, 3000)
			for {
				vsched.WaitCond("peer-readable-or-done", func() bool { return done || vsyscall.HReadable(b) })
				n, err := vsyscall.HRead(b, buf)
				if n > 0 {
					recv = append(recv, buf[:n]...)
					continue
				}
				if n == 0 && err == nil {
					return
				}
				if done && err == syscall.EAGAIN {
					return
				}
			}
		})
	}
	sc.Outcome = func(ex *vsched.Exec) string { return fmt.Sprintf("recv=%d err=%s", len(recv), errClass(flushErr)) }
	sc.Check = func(ex *vsched.Exec) []vsched.Violation {
		vs := baseChecks("C04", ex, false)
		add := func(sig, msg string) { vs = append(vs, vsched.Violation{Sig: "C04 " + sig, Msg: msg}) }
		if ex.End != vsched.EndQuiescent {
			return vs
		}
		if len(recv) > len(want) || string(recv) != string(want[:len(recv)]) {
			add("send-stream writer="+mix, fmt.Sprintf("the peer received %d bytes that are not a prefix of the %d submitted (first diff at %d)", len(recv), len(want), firstDiff(recv, want)))
		}
		if flushErr == nil && len(recv) != len(want) {
			add("send-loss writer="+mix, fmt.Sprintf("every Flush returned nil but the peer received %d of %d bytes", len(recv), len(want)))
		}
		if flushErr != nil {
			add("send-error writer="+mix, fmt.Sprintf("Flush/Write failed: %v", flushErr))
		}
		return vs
	}
	return sc
}
