package main

import (
	"fmt"
	"net"
	"strings"
	"syscall"

	"github.com/cloudwego/netpoll"
	"verif/engine/shim/vsyscall"
	"verif/engine/vsched"
)

// ---- C15 / C19: a Listener used the way net.Listener is used - Accept from one goroutine,
// Close from another (listener). ConvertListener keeps the os.File of the net.Listener and its
// descriptor number; CreateListener goes through the same path.

func init() {
	register("listener", func(tier string) []Variant {
		var vs []Variant
		for _, kind := range []string{"convert-unix", "create-unix", "create-tcp"} {
			for _, pending := range []int{0, 1} {
				kind, pending := kind, pending
				vs = append(vs, Variant{
					Name: fmt.Sprintf("kind=%s,pending=%d", kind, pending),
					Make: func() *vsched.Scenario { return listenerScenario(kind, pending) },
				})
			}
		}
		return vs
	})
}

func listenerScenario(kind string, pending int) *vsched.Scenario {
	var notes []string
	var accepted, acceptErrs int
	sc := &vsched.Scenario{Name: "listener", Horizon: 6000}
	sc.Body = func() {
		notes, accepted, acceptErrs = nil, 0, 0
		netpoll.VerifReset(1)
		srvCounter++
		name := fmt.Sprintf("@verif-ln-%d-%d", syscall.Getpid(), srvCounter)
		var nl netpoll.Listener
		var err error
		switch kind {
		case "convert-unix":
			var l net.Listener
			l, err = net.Listen("unix", name)
			if err == nil {
				nl, err = netpoll.ConvertListener(l)
			}
		case "create-unix":
			nl, err = netpoll.CreateListener("unix", name)
		case "create-tcp":
			nl, err = netpoll.CreateListener("tcp", "127.0.0.1:0")
		}
		if err != nil {
			notes = append(notes, "setup failed: "+err.Error())
			return
		}
		lfd := nl.Fd()
		vsyscall.Register(lfd, "listener-dup")
		for i := 0; i < pending; i++ {
			if strings.HasSuffix(kind, "unix") {
				c, err := vsyscall.HConnectUnix(name[1:])
				if err != nil {
					notes = append(notes, "connect: "+err.Error())
				}
				_ = c
			} else {
				port := nl.Addr().(*net.TCPAddr).Port
				vsyscall.HConnectTCP(port)
			}
		}
		var closed hbFlag
		vsched.Go("acceptor", func() {
			for i := 0; i < 2; i++ {
				c, err := nl.Accept()
				if err != nil {
					acceptErrs++
					continue
				}
				if c != nil {
					accepted++
					c.Close()
				}
			}
		})
		vsched.Go("closer", func() {
			nl.Close()
			if _, _, open := vsyscall.FdIdentity(lfd); !open {
				vsyscall.ClosedExternally(lfd)
			}
			closed.Set()
		})
	}
	sc.Outcome = func(ex *vsched.Exec) string {
		return fmt.Sprintf("accepted=%d errs=%d %s", accepted, acceptErrs, strings.Join(notes, ";"))
	}
	sc.Check = func(ex *vsched.Exec) []vsched.Violation {
		vs := baseChecks("C15", ex, false)
		if ex.End != vsched.EndQuiescent {
			return vs
		}
		led := vsyscall.L()
		for _, r := range led.Recs {
			if r.Owner != "netpoll" {
				continue
			}
			if r.Closes < 0 && -1-r.Closes == 0 && (r.Kind == "listener-dup" || r.Kind == "accepted") {
				vs = append(vs, vsched.Violation{Sig: "C15 leak kind=" + r.Kind + " life=listener-concurrent", Msg: fmt.Sprintf("descriptor %d (%s) that netpoll owns was never closed", r.Fd, r.Kind)})
			}
		}
		return vs
	}
	return sc
}
