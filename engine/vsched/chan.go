package vsched

import (
	"reflect"
	"unsafe"
)

// ChanID is the identity of a channel value (the address of its runtime header).
//
//go:norace
func ChanID(ch interface{}) uintptr {
	return uintptr((*[2]unsafe.Pointer)(unsafe.Pointer(&ch))[1])
}

// closed-channel table (per execution): close() is announced by the
// instrumented code, so closedness never has to be probed with a receive.
type ptrSet struct {
	slots []uintptr
	n     int
}

//go:norace
func (s *ptrSet) has(p uintptr) bool {
	if len(s.slots) == 0 {
		return false
	}
	mask := uintptr(len(s.slots) - 1)
	i := uintptr(mix3(uint64(p), 7, 9)) & mask
	for s.slots[i] != 0 {
		if s.slots[i] == p {
			return true
		}
		i = (i + 1) & mask
	}
	return false
}

//go:norace
func (s *ptrSet) add(p uintptr) {
	if len(s.slots) == 0 {
		s.slots = make([]uintptr, 64)
	}
	if s.n*2 >= len(s.slots) {
		old := s.slots
		s.slots = make([]uintptr, len(old)*2)
		s.n = 0
		for _, q := range old {
			if q != 0 {
				s.add(q)
			}
		}
	}
	mask := uintptr(len(s.slots) - 1)
	i := uintptr(mix3(uint64(p), 7, 9)) & mask
	for s.slots[i] != 0 {
		if s.slots[i] == p {
			return
		}
		i = (i + 1) & mask
	}
	s.slots[i] = p
	s.n++
}

//go:norace
func (ex *Exec) closedSet() *ptrSet {
	if ex.closed == nil {
		ex.closed = &ptrSet{}
	}
	return ex.closed
}

// MarkClosed records that a channel was closed (for scheduler-context closers such as vcontext).
//
//go:norace
func (ex *Exec) MarkClosed(ch interface{}) {
	id := ChanID(ch)
	ex.closedSet().add(id)
	ex.TouchObj(id, 0xc105ed)
}

//go:norace
func recvReady(ex *Exec, ch interface{}, id uintptr) bool {
	if id == 0 {
		return false // nil channel
	}
	if reflect.ValueOf(ch).Len() > 0 {
		return true
	}
	return ex.closedSet().has(id)
}

//go:norace
func sendReady(ex *Exec, ch interface{}, id uintptr) bool {
	if id == 0 {
		return false
	}
	if ex.closedSet().has(id) {
		return true // will panic, as in Go
	}
	v := reflect.ValueOf(ch)
	if v.Cap() == 0 {
		panic("vsched: send on unbuffered channel is not supported by the scheduler shim")
	}
	return v.Len() < v.Cap()
}

// WaitRecv is inserted before a plain receive `<-ch`.
//
//go:norace
func WaitRecv(ch interface{}) {
	ex := cur
	if ex == nil {
		return
	}
	id := ChanID(ch)
	Block(KRecv, id, "recv", func() bool { return recvReady(ex, ch, id) })
}

// WaitSend is inserted before a plain send `ch <- v`.
//
//go:norace
func WaitSend(ch interface{}) {
	ex := cur
	if ex == nil {
		return
	}
	id := ChanID(ch)
	Block(KSend, id, "send", func() bool { return sendReady(ex, ch, id) })
}

// CloseNote is inserted before `close(ch)`.
//
//go:norace
func CloseNote(ch interface{}) {
	ex := cur
	if ex == nil {
		return
	}
	id := ChanID(ch)
	Point(KClose, id, true, "close")
	ex.closedSet().add(id)
}

type Case struct {
	ch   interface{}
	send bool
}

//go:norace
func R(ch interface{}) Case { return Case{ch: ch} }

//go:norace
func S(ch interface{}) Case { return Case{ch: ch, send: true} }

// Select decides which case of a rewritten select statement runs: the index
// of a ready case, or -1 for default. With several ready cases the pick is an
// explored environment choice (Go would pick at random).
//
//go:norace
func Select(hasDefault bool, cases ...Case) int {
	ex := cur
	if ex == nil {
		panic("vsched.Select in passthrough mode")
	}
	if ex.aborting {
		panic(AbortSentinel)
	}
	ids := make([]uintptr, len(cases))
	for i := range cases {
		ids[i] = ChanID(cases[i].ch)
	}
	ready := func(i int) bool {
		if cases[i].send {
			return sendReady(ex, cases[i].ch, ids[i])
		}
		return recvReady(ex, cases[i].ch, ids[i])
	}
	anyReady := func() bool {
		for i := range cases {
			if ready(i) {
				return true
			}
		}
		return false
	}
	if hasDefault {
		Point(KSelect, 0, true, "select")
	} else {
		Block(KSelect, 0, "select", anyReady)
	}
	var rbuf [8]int
	rs := rbuf[:0]
	for i := range cases {
		if ready(i) {
			rs = append(rs, i)
		}
	}
	t := ex.running
	if len(rs) == 0 {
		// default: it observed every channel as not ready
		for i := range cases {
			ex.stepObj(t, ids[i], false)
		}
		return -1
	}
	pick := rs[0]
	if len(rs) > 1 {
		pick = rs[Choose(len(rs), "select-ready")]
	}
	for i := range cases {
		if ids[i] != 0 {
			ex.stepObj(t, ids[i], i == pick)
		}
	}
	return pick
}

// stepObj folds one more object access into t's current step.
//
//go:norace
func (ex *Exec) stepObj(t *Thread, obj uintptr, write bool) {
	if !ex.useHB || obj == 0 {
		return
	}
	ex.thrSum -= ex.thrKey(t)
	o := ex.objs.get(obj)
	ex.objSum -= o.key()
	if write {
		t.h = mix3(t.h, o.lastW+o.readers*0x9e3779b97f4a7c15, 0x5e1)
		o.lastW = t.h
		o.readers = 0
	} else {
		t.h = mix3(t.h, o.lastW, 0x5e2)
		o.readers += mix3(t.h, 1, 2)
	}
	ex.objSum += o.key()
	ex.thrSum += ex.thrKey(t)
}
