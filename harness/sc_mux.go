package main

import (
	"fmt"
	"strings"

	"github.com/cloudwego/netpoll"
	"github.com/cloudwego/netpoll/mux"
	"verif/engine/vsched"
)

// ---- C17: mux.ShardQueue ----

type tagWriter struct {
	netpoll.Writer
	tag string
}

type fakeConn struct {
	netpoll.Connection
	w      fakeWriter
	closed bool
}

type fakeWriter struct {
	netpoll.Writer
	appended []string
	flushed  []string
	flushes  int
}

func (c *fakeConn) Writer() netpoll.Writer { return &c.w }
func (c *fakeConn) IsActive() bool         { return !c.closed }
func (c *fakeConn) Close() error           { c.closed = true; return nil }

func (w *fakeWriter) Append(x netpoll.Writer) error {
	w.appended = append(w.appended, x.(*tagWriter).tag)
	return nil
}

func (w *fakeWriter) Flush() error {
	w.flushes++
	w.flushed = append(w.flushed, w.appended...)
	w.appended = nil
	return nil
}

func init() {
	register("mux.shardq", func(tier string) []Variant {
		var vs []Variant
		maxAdders := 2
		if tier == "thorough" {
			maxAdders = 3
		}
		for adders := 2; adders <= maxAdders; adders++ {
			for adds := 1; adds <= 2; adds++ {
				for shards := 1; shards <= 2; shards++ {
					for closer := 0; closer <= 1; closer++ {
						for nilg := 0; nilg <= 1; nilg++ {
							if nilg == 1 && (adds != 1 || shards != 1) {
								continue
							}
							a, d, s, c, ng := adders, adds, shards, closer, nilg
							vs = append(vs, Variant{
								Name: fmt.Sprintf("adders=%d,adds=%d,shards=%d,close=%d,nilgetter=%d", a, d, s, c, ng),
								Make: func() *vsched.Scenario { return muxScenario(a, d, s, c == 1, ng == 1) },
							})
						}
					}
				}
			}
		}
		return vs
	})
}

func muxScenario(adders, adds, shards int, closer, nilGetter bool) *vsched.Scenario {
	var q *mux.ShardQueue
	var conn *fakeConn
	sc := &vsched.Scenario{Name: "mux.shardq", Horizon: 5000}
	sc.Body = func() {
		conn = &fakeConn{}
		q = mux.NewShardQueue(shards, conn)
		for i := 0; i < adders; i++ {
			i := i
			vsched.Go(fmt.Sprintf("adder%d", i), func() {
				for j := 0; j < adds; j++ {
					tag := fmt.Sprintf("%d.%d", i, j)
					isNil := nilGetter && i == 0
					vsched.LogEvent("add-start " + tag)
					q.Add(func() (netpoll.Writer, bool) {
						vsched.LogEvent("get " + tag)
						if isNil {
							return nil, true
						}
						return &tagWriter{tag: tag}, false
					})
					vsched.LogEvent("add-ret " + tag)
				}
			})
		}
		if closer {
			vsched.Go("closer", func() {
				vsched.LogEvent("close-call")
				q.Close()
				vsched.LogEvent("close-ret")
			})
		}
	}
	sc.Outcome = func(ex *vsched.Exec) string {
		var o []string
		for _, e := range ex.Log {
			if strings.HasPrefix(e.Msg, "get ") || strings.HasPrefix(e.Msg, "close-") {
				o = append(o, e.Msg)
			}
		}
		return strings.Join(o, ";")
	}
	sc.Check = func(ex *vsched.Exec) []vsched.Violation {
		var vs []vsched.Violation
		if ex.End != vsched.EndQuiescent {
			return []vsched.Violation{{Sig: "C17 " + ex.End.String(), Msg: ex.EndMsg}}
		}
		if len(ex.Panics) > 0 {
			vs = append(vs, vsched.Violation{Sig: "C17 panic", Msg: ex.Panics[0].Val + "\n" + ex.Panics[0].Stack})
		}
		idx := func(msg string) int {
			for i, e := range ex.Log {
				if e.Msg == msg {
					return i
				}
			}
			return -1
		}
		count := func(msg string) int {
			n := 0
			for _, e := range ex.Log {
				if e.Msg == msg {
					n++
				}
			}
			return n
		}
		closeCall, closeRet := idx("close-call"), idx("close-ret")
		pending, trigger, _, _ := mux.VerifQueueState(q)
		for i := 0; i < adders; i++ {
			for j := 0; j < adds; j++ {
				tag := fmt.Sprintf("%d.%d", i, j)
				n := count("get " + tag)
				if n > 1 {
					vs = append(vs, vsched.Violation{Sig: "C17 getter-twice", Msg: "getter " + tag + " invoked twice"})
				}
				addStart, addRet, get := idx("add-start "+tag), idx("add-ret "+tag), idx("get "+tag)
				mustRun := !closer || (addRet >= 0 && addRet < closeCall)
				mustNot := closer && closeRet >= 0 && addStart > closeRet
				if mustRun && n == 0 {
					vs = append(vs, vsched.Violation{Sig: "C17 getter-lost", Msg: fmt.Sprintf("getter %s never invoked at quiescence (pending=%d trigger=%d)", tag, pending, trigger)})
				}
				if mustNot && n > 0 {
					vs = append(vs, vsched.Violation{Sig: "C17 add-after-close-ran", Msg: "getter " + tag + " added after Close returned was invoked"})
				}
				if closer && mustRun && closeRet >= 0 && (get < 0 || get > closeRet) {
					vs = append(vs, vsched.Violation{Sig: "C17 close-early", Msg: "Close returned before getter " + tag + " (added before Close) was handled"})
				}
				if n == 1 && !(nilGetter && i == 0) {
					fl := false
					for _, t := range conn.w.flushed {
						if t == tag {
							fl = true
						}
					}
					if !fl {
						vs = append(vs, vsched.Violation{Sig: "C17 unflushed", Msg: "data of getter " + tag + " appended but never flushed at quiescence"})
					}
				}
			}
		}
		if !closer && (pending != 0 || trigger != 0) {
			vs = append(vs, vsched.Violation{Sig: "C17 stuck", Msg: fmt.Sprintf("quiescent with pending=%d trigger=%d", pending, trigger)})
		}
		seen := map[string]int{}
		for _, t := range conn.w.flushed {
			seen[t]++
			if seen[t] > 1 {
				vs = append(vs, vsched.Violation{Sig: "C17 flushed-twice", Msg: "data " + t + " flushed twice"})
			}
		}
		return vs
	}
	return sc
}
