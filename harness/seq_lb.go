package main

// SEQ-BFS `lb`: explicit-state breadth-first search over operation sequences on
// real LinkBuffers, each transition executed on the implementation and on a
// FIFO byte-queue reference model (C01), with every live zero-copy result
// re-examined (C02) and the instrumented pool allocator's ledger audited (C03).

import (
	"bytes"
	"fmt"
	"hash/fnv"
	"sort"
	"strings"
	"time"
	"unsafe"

	"github.com/cloudwego/netpoll"
	"verif/engine/alloc"
	"verif/engine/shim/vsync"
	"verif/engine/vsched"
)

type opKind int

const (
	oMalloc opKind = iota
	oWriteBinary
	oWriteString
	oWriteByte
	oWriteDelim
	oMallocAck
	oWriteDirect
	oAppend
	oFlush
	oNext
	oPeek
	oSkip
	oReadBinary
	oReadString
	oReadByte
	oUntil
	oSlice
	oRelease
	oRead
	oGetBytes
	oBytes
	oRecv // poller mode: book + fill + bookAck(k)
	oConnRelease
	oSNext // on slice reader M
	oSPeek
	oSReadBinary
	oSSkip
	oSRelease
	oSSlice
	oClose
	oSClose
)

var opNames = map[opKind]string{oMalloc: "Malloc", oWriteBinary: "WriteBinary", oWriteString: "WriteString", oWriteByte: "WriteByte", oWriteDelim: "WriteByte('\\n')",
	oMallocAck: "MallocAck", oWriteDirect: "WriteDirect", oAppend: "Append", oFlush: "Flush", oNext: "Next", oPeek: "Peek", oSkip: "Skip", oReadBinary: "ReadBinary",
	oReadString: "ReadString", oReadByte: "ReadByte", oUntil: "Until('\\n')", oSlice: "Slice", oRelease: "Release", oRead: "Read", oGetBytes: "GetBytes", oBytes: "Bytes",
	oRecv: "book+bookAck", oConnRelease: "conn.Release(resetTail)", oSNext: "slice.Next", oSPeek: "slice.Peek", oSReadBinary: "slice.ReadBinary", oSSkip: "slice.Skip",
	oSRelease: "slice.Release", oSSlice: "slice.Slice", oClose: "Close", oSClose: "slice.Close"}

type lbOp struct {
	K opKind
	N int // size
	M int // aux: remain (WriteDirect), donor id (Append), slice reader index, book size
}

func (o lbOp) String() string {
	switch o.K {
	case oWriteDirect:
		return fmt.Sprintf("WriteDirect(len=%d,remain=%d)", o.N, o.M)
	case oAppend:
		return fmt.Sprintf("Append(donor%d)", o.M)
	case oRecv:
		return fmt.Sprintf("book(bookSize=%d)+bookAck(%d)", o.M, o.N)
	case oSNext, oSPeek, oSReadBinary, oSSkip, oSSlice:
		return fmt.Sprintf("slice%d.%s(%d)", o.M, strings.TrimPrefix(opNames[o.K], "slice."), o.N)
	case oSRelease, oSClose:
		return fmt.Sprintf("slice%d.%s()", o.M, strings.TrimPrefix(opNames[o.K], "slice."))
	case oFlush, oRelease, oWriteByte, oWriteDelim, oReadByte, oUntil, oGetBytes, oBytes, oClose, oConnRelease:
		return opNames[o.K] + "()"
	}
	return fmt.Sprintf("%s(%d)", opNames[o.K], o.N)
}

type lbCfg struct {
	name    string
	nodeCap int
	initCap int // -1: NewLinkBuffer()
	wsizes  []int
	rsizes  []int
	poller  bool
	bufSize int    // poller mode: defaultLinkBufferSize stand-in (bookSize/maxSize start)
	seed    []lbOp // the search starts from the state this (contract-respecting) history reaches
}

type lbResult struct {
	owner int // 0 parent, 1.. slice reader
	kind  string
	data  []byte
	snap  []byte
	dead  bool
}

type lbSlice struct {
	lb       *netpoll.LinkBuffer
	rd       netpoll.Reader
	m        []byte
	released bool
}

type callerMem struct {
	name string
	p    []byte
	sum  uint64
}

type lbRun struct {
	cfg     *lbCfg
	led     *alloc.Ledger
	pool    *vsync.PoolLedger
	buf     *netpoll.LinkBuffer
	rd      []byte // model: readable
	pd      []byte // model: pending
	slices  []*lbSlice
	results []*lbResult
	caller  []callerMem
	copies  []callerMem // private copies returned by ReadBinary/ReadString/Read
	viol    []vsched.Violation
	ctr     int
	// contract tracking
	lastMalloc int  // size of the last Malloc if WriteDirect may follow, else -1
	wdRemain   int  // remain of the previous WriteDirect (non-increasing)
	batchWB    bool // WriteBinary/WriteString used since last Flush
	batchWD    bool // WriteDirect used since last Flush
	appended   bool // Append since last Flush: no reads / Len comparisons
	closed     bool
	// poller mode
	bookSize, maxSize int
	last              lbOp
	splitBlocks       map[uintptr]string // pool blocks / caller memory shared by a WriteDirect origin node and its split-off node
	trace             []string
}

func fnv64(b []byte) uint64 {
	h := fnv.New64a()
	h.Write(b)
	return h.Sum64()
}

func pow2(n int) int {
	p := 1
	for p < n {
		p <<= 1
	}
	return p
}

func newLbRun(cfg *lbCfg) *lbRun {
	r := &lbRun{cfg: cfg, lastMalloc: -1, splitBlocks: map[uintptr]string{}}
	r.led = alloc.Reset()
	r.pool = &vsync.PoolLedger{}
	vsync.Ledger = r.pool
	netpoll.LinkBufferCap = cfg.nodeCap
	if cfg.poller {
		r.buf = netpoll.NewLinkBuffer(cfg.bufSize)
		r.bookSize, r.maxSize = cfg.bufSize, cfg.bufSize
	} else if cfg.initCap < 0 {
		r.buf = netpoll.NewLinkBuffer()
	} else {
		r.buf = netpoll.NewLinkBuffer(cfg.initCap)
	}
	return r
}

func (r *lbRun) gen(n int) []byte {
	p := make([]byte, n, pow2(n))
	for i := range p {
		p[i] = sbyte(r.ctr)
		r.ctr++
	}
	return p
}

func (r *lbRun) fail(prop, sig, msg string) {
	r.viol = append(r.viol, vsched.Violation{Sig: prop + " " + sig, Msg: msg})
}

func (r *lbRun) addResult(owner int, kind string, data []byte) {
	if len(data) == 0 {
		return
	}
	r.results = append(r.results, &lbResult{owner: owner, kind: kind, data: data, snap: append([]byte(nil), data...)})
}

func (r *lbRun) killResults(owner int) {
	for _, x := range r.results {
		if x.owner == owner {
			x.dead = true
		}
	}
}

// donors: canned histories of a second buffer that is appended (readable bytes, pending bytes)
func (r *lbRun) makeDonor(id int) (*netpoll.LinkBuffer, []byte) {
	d := netpoll.NewLinkBuffer()
	var content []byte
	w := func(n int, flush bool) {
		p, _ := d.Malloc(n)
		g := r.gen(n)
		copy(p, g)
		content = append(content, g...)
		if flush {
			d.Flush()
		}
	}
	switch id {
	case 0:
		w(3, true)
	case 1:
		w(3, false)
	case 2: // consumed head, partially read node, pending tail
		w(r.cfg.nodeCap, true)
		w(r.cfg.nodeCap, true)
		d.Next(r.cfg.nodeCap + 1)
		content = content[r.cfg.nodeCap+1:]
		w(2, false)
	case 3: // empty
	case 4: // nocopy node + released head
		g := r.gen(4097)
		r.registerCaller("donor.WriteBinary", g)
		d.WriteBinary(g)
		content = append(content, g...)
		d.Flush()
		w(3, true)
		d.Next(5)
		d.Release()
		content = content[5:]
	}
	return d, content
}

func (r *lbRun) registerCaller(name string, p []byte) {
	r.led.RegisterCaller(name, p[:cap(p)])
	r.caller = append(r.caller, callerMem{name: name, p: p, sum: fnv64(p)})
}

const numDonors = 5

// enabled lists the contract-respecting operations from the current model state, simplest first.
func (r *lbRun) enabled() []lbOp {
	if r.closed {
		var ops []lbOp
		for i, s := range r.slices {
			if !s.released {
				ops = append(ops, lbOp{K: oSNext, N: 1, M: i}, lbOp{K: oSRelease, M: i})
			}
		}
		return ops
	}
	var ops []lbOp
	cfg := r.cfg
	if cfg.poller {
		for _, k := range []int{1, r.bookSize / 2, r.bookSize} {
			if k >= 1 {
				ops = append(ops, lbOp{K: oRecv, N: k, M: r.bookSize})
			}
		}
		ops = append(ops, lbOp{K: oRecv, N: 0, M: r.bookSize})
	} else {
		for _, n := range cfg.wsizes {
			ops = append(ops, lbOp{K: oMalloc, N: n})
		}
		if !r.batchWD {
			for _, n := range cfg.wsizes {
				ops = append(ops, lbOp{K: oWriteBinary, N: n})
			}
			for _, n := range cfg.wsizes {
				if n == 1 || n > 4096 {
					ops = append(ops, lbOp{K: oWriteString, N: n})
				}
			}
		}
		ops = append(ops, lbOp{K: oWriteByte}, lbOp{K: oWriteDelim})
		if len(r.pd) > 0 && !r.appended {
			ks := []int{0, 1, len(r.pd) - 1, len(r.pd)}
			seen := map[int]bool{}
			for _, k := range ks {
				if k >= 0 && k <= len(r.pd) && !seen[k] {
					seen[k] = true
					ops = append(ops, lbOp{K: oMallocAck, N: k})
				}
			}
		}
		if r.lastMalloc > 0 && !r.batchWB && !r.appended {
			rem := []int{0, 1, r.lastMalloc / 2, r.lastMalloc}
			seen := map[int]bool{}
			for _, m := range rem {
				if m <= r.wdRemain && !seen[m] {
					seen[m] = true
					for _, n := range []int{3, 4097} {
						ops = append(ops, lbOp{K: oWriteDirect, N: n, M: m})
					}
				}
			}
		}
		for d := 0; d < numDonors; d++ {
			ops = append(ops, lbOp{K: oAppend, M: d})
		}
		ops = append(ops, lbOp{K: oFlush})
	}
	if !r.appended {
		l := len(r.rd)
		sz := map[int]bool{}
		var rs []int
		for _, n := range append(append([]int{}, cfg.rsizes...), l, l+1) {
			if n >= 1 && !sz[n] && (n <= l+1) {
				sz[n] = true
				rs = append(rs, n)
			}
		}
		sort.Ints(rs)
		for _, k := range []opKind{oNext, oPeek, oSkip, oReadBinary, oSlice, oRead} {
			for _, n := range rs {
				if k == oSlice && len(r.slices) >= 2 {
					continue
				}
				ops = append(ops, lbOp{K: k, N: n})
			}
		}
		if l > 0 {
			ops = append(ops, lbOp{K: oReadString, N: rs[0]}, lbOp{K: oReadByte}, lbOp{K: oGetBytes})
		}
		ops = append(ops, lbOp{K: oUntil})
		if cfg.poller {
			ops = append(ops, lbOp{K: oConnRelease})
		} else {
			ops = append(ops, lbOp{K: oRelease})
		}
	}
	for i, s := range r.slices {
		if s.released {
			continue
		}
		l := len(s.m)
		for _, n := range []int{1, l, l + 1} {
			if n >= 1 {
				ops = append(ops, lbOp{K: oSNext, N: n, M: i}, lbOp{K: oSPeek, N: n, M: i})
			}
		}
		if l > 1 {
			ops = append(ops, lbOp{K: oSReadBinary, N: l - 1, M: i}, lbOp{K: oSSkip, N: 1, M: i})
		}
		ops = append(ops, lbOp{K: oSRelease, M: i})
		if len(r.slices) < 3 && l >= 1 {
			// a Slice reader cut from a Slice reader (shares the root node's reference count)
			ops = append(ops, lbOp{K: oSSlice, N: 1, M: i})
			if l > 1 {
				ops = append(ops, lbOp{K: oSSlice, N: l, M: i})
			}
		}
	}
	ops = append(ops, lbOp{K: oClose})
	return ops
}

func errStr(e error) string {
	if e == nil {
		return "nil"
	}
	return "err"
}

// apply runs one operation on the implementation and the model; check decides whether verdicts are collected.
func (r *lbRun) apply(o lbOp, check bool) {
	r.last = o
	b := r.buf
	bad := func(prop, clause, msg string) {
		if check {
			r.fail(prop, clause+" op="+opNames[o.K], fmt.Sprintf("%s: %s", o, msg))
		}
	}
	wantErr := func(err error, want bool) {
		if (err != nil) != want {
			bad("C01", "error-class", fmt.Sprintf("returned %s, reference model says error=%v (readable=%d pending=%d)", errStr(err), want, len(r.rd), len(r.pd)))
		}
	}
	cmp := func(got, want []byte, what string) {
		if !bytes.Equal(got, want) {
			if d := firstDiff(got, want); d < len(got) && got[d] == alloc.Poison {
				// the data was read out of a block that had already been returned to the pool
				if check {
					sig := "premature-free" + r.splitTagOr(" seen-by="+opNames[o.K])
					if blk := r.led.FreedOverlap(got); blk != nil {
						if _, ok := r.splitBlocks[blk.Base]; ok {
							// the freeing call site is part of the signature: the recorded finding is the
							// split-off node giving the block back when IT is released; a free of such a
							// block from anywhere else is a different defect
							sig = "premature-free block=WriteDirect-split " + splitFreedBy(blk.FreeSite)
						} else {
							sig = "premature-free freed_in=" + blk.FreeSite + " seen-by=" + opNames[o.K]
						}
					}
					r.fail("C03", sig, fmt.Sprintf("%s: %s read bytes out of a pool block that was freed while it still held unconsumed readable data", o, what))
				}
				return
			}
			bad("C01", "bytes", fmt.Sprintf("%s returned %d bytes that differ from the FIFO reference (want %d bytes; first diff at %d)", what, len(got), len(want), firstDiff(got, want)))
		}
	}
	noteWrite := func() { r.lastMalloc, r.wdRemain = -1, 0 }
	switch o.K {
	case oMalloc:
		p, err := b.Malloc(o.N)
		wantErr(err, false)
		if len(p) != o.N {
			bad("C01", "malloc-len", fmt.Sprintf("returned %d bytes", len(p)))
		}
		g := r.gen(len(p))
		copy(p, g)
		r.pd = append(r.pd, g...)
		r.lastMalloc, r.wdRemain = o.N, o.N
	case oWriteBinary:
		g := r.gen(o.N)
		r.registerCaller("WriteBinary", g)
		n, err := b.WriteBinary(g)
		wantErr(err, false)
		if n != o.N {
			bad("C01", "write-count", fmt.Sprint(n))
		}
		r.pd = append(r.pd, g...)
		r.batchWB = true
		noteWrite()
	case oWriteString:
		g := r.gen(o.N)
		s := string(g)
		sd := unsafe.Slice(unsafe.StringData(s), len(s))
		r.led.RegisterCaller("WriteString", sd)
		r.caller = append(r.caller, callerMem{name: "WriteString", p: sd, sum: fnv64(sd)})
		n, err := b.WriteString(s)
		wantErr(err, false)
		if n != o.N {
			bad("C01", "write-count", fmt.Sprint(n))
		}
		r.pd = append(r.pd, g...)
		r.batchWB = true
		noteWrite()
	case oWriteByte, oWriteDelim:
		c := sbyte(r.ctr)
		r.ctr++
		if o.K == oWriteDelim {
			c = '\n'
		}
		wantErr(b.WriteByte(c), false)
		r.pd = append(r.pd, c)
		noteWrite()
	case oMallocAck:
		wantErr(b.MallocAck(o.N), false)
		r.pd = r.pd[:o.N]
		noteWrite()
	case oWriteDirect:
		g := r.gen(o.N)
		r.registerCaller("WriteDirect", g)
		wantErr(b.WriteDirect(g, o.M), false)
		at := len(r.pd) - o.M
		np := append([]byte{}, r.pd[:at]...)
		np = append(np, g...)
		np = append(np, r.pd[at:]...)
		r.pd = np
		r.wdRemain = o.M
		r.batchWD = true
		if o.M > 0 {
			r.markSplits()
		}
	case oAppend:
		d, content := r.makeDonor(o.M)
		wantErr(b.Append(d), false)
		if len(content) > 0 {
			r.pd = append(r.pd, content...)
			r.appended = true
		}
		noteWrite()
	case oFlush:
		wantErr(b.Flush(), false)
		r.rd = append(r.rd, r.pd...)
		r.pd = nil
		r.appended, r.batchWB, r.batchWD = false, false, false
		r.killResults(-1)
		noteWrite()
	case oNext, oPeek, oUntil:
		var p []byte
		var err error
		n := o.N
		switch o.K {
		case oNext:
			p, err = b.Next(n)
		case oPeek:
			p, err = b.Peek(n)
		case oUntil:
			i := bytes.IndexByte(r.rd, '\n')
			p, err = b.Until('\n')
			if i < 0 {
				wantErr(err, true)
				if len(p) != 0 {
					bad("C01", "failed-read-returned-data", "Until without delimiter returned bytes")
				}
				n = -1
			} else {
				n = i + 1
			}
		}
		if n >= 0 {
			if n > len(r.rd) {
				wantErr(err, true)
				if len(p) != 0 {
					bad("C01", "failed-read-returned-data", fmt.Sprintf("returned %d bytes with an error", len(p)))
				}
			} else {
				wantErr(err, false)
				cmp(p, r.rd[:n], opNames[o.K])
				r.addResult(0, opNames[o.K], p)
				if o.K != oPeek {
					r.rd = r.rd[n:]
				}
			}
		}
	case oSkip:
		err := b.Skip(o.N)
		if o.N > len(r.rd) {
			wantErr(err, true)
		} else {
			wantErr(err, false)
			r.rd = r.rd[o.N:]
		}
	case oReadBinary, oReadString:
		var p []byte
		var err error
		if o.K == oReadBinary {
			p, err = b.ReadBinary(o.N)
		} else {
			var s string
			s, err = b.ReadString(o.N)
			p = unsafe.Slice(unsafe.StringData(s), len(s))
		}
		if o.N > len(r.rd) {
			wantErr(err, true)
		} else {
			wantErr(err, false)
			cmp(p, r.rd[:o.N], opNames[o.K])
			r.rd = r.rd[o.N:]
			if len(p) > 0 {
				r.led.RegisterCaller(opNames[o.K]+"-copy", p)
				r.copies = append(r.copies, callerMem{name: opNames[o.K] + " result", p: p, sum: fnv64(p)})
			}
		}
	case oReadByte:
		c, err := b.ReadByte()
		if len(r.rd) == 0 {
			wantErr(err, true)
		} else {
			wantErr(err, false)
			cmp([]byte{c}, r.rd[:1], "ReadByte")
			r.rd = r.rd[1:]
		}
	case oRead:
		p := make([]byte, o.N, pow2(o.N))
		n := netpoll.VerifReadCopy(b, p)
		want := o.N
		if want > len(r.rd) {
			want = len(r.rd)
		}
		if n != want {
			bad("C01", "read-count", fmt.Sprintf("Read copied %d bytes, reference %d", n, want))
		} else {
			cmp(p[:n], r.rd[:n], "Read")
			r.rd = r.rd[n:]
		}
		r.led.RegisterCaller("Read-dst", p)
		r.copies = append(r.copies, callerMem{name: "Read destination", p: p, sum: fnv64(p)})
	case oGetBytes:
		vs := b.GetBytes(make([][]byte, 32))
		var all []byte
		for _, v := range vs {
			all = append(all, v...)
			r.addResult(0, "GetBytes", v)
		}
		cmp(all, r.rd, "GetBytes")
	case oSlice:
		rd2, err := b.Slice(o.N)
		if o.N > len(r.rd) {
			wantErr(err, true)
		} else {
			wantErr(err, false)
			r.killResults(0) // Slice releases the parent reader
			s := &lbSlice{rd: rd2, m: append([]byte(nil), r.rd[:o.N]...)}
			s.lb, _ = rd2.(*netpoll.LinkBuffer)
			r.slices = append(r.slices, s)
			r.rd = r.rd[o.N:]
			if rd2 == nil || rd2.Len() != o.N {
				bad("C01", "slice-len", "Slice reader has wrong Len")
			}
		}
	case oRelease:
		wantErr(b.Release(), false)
		r.killResults(0)
	case oConnRelease:
		// what connection.Release does around the buffer's own Release
		if b.Len() == 0 {
			ms := netpoll.VerifCalcMaxSize(b)
			if ms > netpoll.VerifMallocMax {
				ms = netpoll.VerifMallocMax
			}
			if ms > r.maxSize {
				r.maxSize = ms
			}
			netpoll.VerifResetTail(b, r.maxSize)
		}
		wantErr(b.Release(), false)
		r.killResults(0)
	case oRecv:
		p := netpoll.VerifBook(b, r.bookSize, r.maxSize)
		k := o.N
		if k > len(p) {
			k = len(p)
		}
		g := r.gen(k)
		copy(p, g)
		if k == r.bookSize && r.bookSize < netpoll.VerifMallocMax {
			r.bookSize <<= 1
		}
		length, _ := netpoll.VerifBookAck(b, k)
		r.rd = append(r.rd, g...)
		if r.maxSize < length {
			r.maxSize = length
		}
		if length != len(r.rd) {
			bad("C01", "len", fmt.Sprintf("bookAck reports length %d, reference %d", length, len(r.rd)))
		}
	case oSNext, oSPeek, oSReadBinary, oSSkip:
		s := r.slices[o.M]
		var p []byte
		var err error
		switch o.K {
		case oSNext:
			p, err = s.rd.Next(o.N)
		case oSPeek:
			p, err = s.rd.Peek(o.N)
		case oSReadBinary:
			p, err = s.rd.ReadBinary(o.N)
		case oSSkip:
			err = s.rd.Skip(o.N)
		}
		if o.N > len(s.m) {
			wantErr(err, true)
		} else {
			wantErr(err, false)
			if o.K != oSSkip {
				cmp(p, s.m[:o.N], opNames[o.K])
			}
			if o.K == oSNext || o.K == oSPeek {
				r.addResult(o.M+1, opNames[o.K], p)
			}
			if o.K != oSPeek {
				s.m = s.m[o.N:]
			}
		}
		if s.rd.Len() != len(s.m) {
			bad("C01", "len", fmt.Sprintf("slice reader Len()=%d, reference %d", s.rd.Len(), len(s.m)))
		}
	case oSSlice:
		s := r.slices[o.M]
		rd2, err := s.rd.Slice(o.N)
		if o.N > len(s.m) {
			wantErr(err, true)
		} else {
			wantErr(err, false)
			r.killResults(o.M + 1) // Slice may release the reader it is cut from
			s2 := &lbSlice{rd: rd2, m: append([]byte(nil), s.m[:o.N]...)}
			s2.lb, _ = rd2.(*netpoll.LinkBuffer)
			r.slices = append(r.slices, s2)
			s.m = s.m[o.N:]
			if rd2 == nil || rd2.Len() != o.N {
				bad("C01", "slice-len", "Slice reader cut from a Slice reader has wrong Len")
			}
			if s.rd.Len() != len(s.m) {
				bad("C01", "len", fmt.Sprintf("slice reader Len()=%d after Slice, reference %d", s.rd.Len(), len(s.m)))
			}
		}
	case oSRelease:
		s := r.slices[o.M]
		wantErr(s.rd.Release(), false)
		r.killResults(o.M + 1)
		// the slice reader keeps working after Release (only consumed data is given back)
	case oClose:
		wantErr(b.Close(), false)
		r.killResults(0)
		r.killResults(-1)
		r.closed = true
		r.rd, r.pd = nil, nil
	}
	if check {
		r.audit(o)
	}
}

// markSplits records memory that a WriteDirect split left shared between two nodes.
func (r *lbRun) markSplits() {
	ch := netpoll.VerifWalk(r.buf)
	seen := map[uintptr]int{}
	for i, n := range ch.Nodes {
		if n.BufPtr == nil {
			continue
		}
		p := uintptr(n.BufPtr)
		if j, ok := seen[p]; ok {
			kind := "pool-block"
			for _, c := range r.caller {
				if len(c.p) > 0 && p == uintptr(unsafe.Pointer(&c.p[0])) {
					kind = "caller-memory"
				}
			}
			_ = j
			r.splitBlocks[p] = kind
		}
		seen[p] = i
	}
}

func firstDiff(a, b []byte) int {
	n := len(a)
	if len(b) < n {
		n = len(b)
	}
	for i := 0; i < n; i++ {
		if a[i] != b[i] {
			return i
		}
	}
	return n
}

// splitFreedBy classifies where a block shared by a WriteDirect split was given back to the pool.
// The recorded finding is the reader side releasing the consumed split-off node (Release, Close,
// the copy-read's recycling, the donor-head release of Append); a free from anywhere else - e.g.
// from the writer side - is a different defect and keeps its call site in the signature.
func splitFreedBy(site string) string {
	switch site {
	case "(*linkBufferNode).Release<(*UnsafeLinkBuffer).Release", "(*linkBufferNode).Release<(*UnsafeLinkBuffer).Close",
		"(*linkBufferNode).Release<(*UnsafeLinkBuffer).readCopy", "(*linkBufferNode).Release<(*UnsafeLinkBuffer).WriteBuffer":
		return "freed_by=consumed-node-release"
	}
	return "freed_in=" + site
}

// splitTag: does the history contain a WriteDirect split (root cause discriminator for signatures)?
func (r *lbRun) splitTag() string {
	if len(r.splitBlocks) > 0 {
		// the block cannot be identified from a private copy: name where the split blocks that
		// have been returned to the pool so far were freed
		var sites []string
		seen := map[string]bool{}
		for _, b := range r.led.Blocks {
			if _, ok := r.splitBlocks[b.Base]; ok && !b.Live && !seen[b.FreeSite] {
				seen[b.FreeSite] = true
				sites = append(sites, b.FreeSite)
			}
		}
		if len(sites) == 0 {
			return ""
		}
		sort.Strings(sites)
		by := map[string]bool{}
		for _, st := range sites {
			by[splitFreedBy(st)] = true
		}
		var bys []string
		for k := range by {
			bys = append(bys, k)
		}
		sort.Strings(bys)
		return " history=WriteDirect-split " + strings.Join(bys, ",")
	}
	return ""
}

func (r *lbRun) splitTagOr(alt string) string {
	if t := r.splitTag(); t != "" {
		return t
	}
	return alt
}

// audit evaluates every oracle on the state reached.
func (r *lbRun) audit(o lbOp) {
	b := r.buf
	op := " op=" + opNames[o.K]
	if !r.closed {
		if !r.appended {
			if b.Len() != len(r.rd) {
				r.fail("C01", "len"+op, fmt.Sprintf("%s: Len()=%d but the reference queue holds %d readable bytes", o, b.Len(), len(r.rd)))
			}
			if b.MallocLen() != len(r.pd) {
				r.fail("C01", "malloclen"+op, fmt.Sprintf("%s: MallocLen()=%d but the reference queue holds %d pending bytes", o, b.MallocLen(), len(r.pd)))
			}
		}
		ch := netpoll.VerifWalk(b)
		if msg := chainInvariant(ch, r.appended); msg != "" {
			r.fail("C01", "chain-invariant"+op, fmt.Sprintf("%s: %s", o, msg))
		}
	}
	// C02: every live result still has its content and does not sit in retired pool memory
	for _, x := range r.results {
		if x.dead {
			continue
		}
		if blk := r.led.FreedOverlap(x.data); blk != nil {
			sig := fmt.Sprintf("uaf result=%s freed_in=%s", x.kind, blk.FreeSite)
			if _, ok := r.splitBlocks[blk.Base]; ok {
				sig = "uaf block=WriteDirect-split " + splitFreedBy(blk.FreeSite)
			}
			r.fail("C02", sig, fmt.Sprintf("after %s: the %d bytes returned by an earlier %s (reader not released since) are in a pool block that was freed in %s", o, len(x.data), x.kind, blk.FreeSite))
			x.dead = true
			continue
		}
		if !bytes.Equal(x.data, x.snap) {
			r.fail("C02", fmt.Sprintf("overwritten result=%s by=%s", x.kind, opNames[o.K]), fmt.Sprintf("after %s: the %d bytes returned by an earlier %s changed (first diff at %d) although its reader was not released", o, len(x.data), x.kind, firstDiff(x.data, x.snap)))
			x.dead = true
		}
	}
	// C03: pool ledger
	for _, v := range r.led.Violations {
		kind := strings.SplitN(v, ":", 2)[0]
		site := v[strings.LastIndex(v, " in ")+4:]
		sig := kind + " in=" + site
		if strings.Contains(v, "caller-owned memory") {
			for _, k := range r.splitBlocks {
				if k == "caller-memory" {
					sig = kind + " caller-memory via=WriteDirect-split-of-caller-node"
				}
			}
		}
		r.fail("C03", sig, fmt.Sprintf("after %s: %s", o, v))
	}
	r.led.Violations = nil
	if msg := r.led.PoisonIntact(); msg != "" {
		r.fail("C03", "write-after-free"+op, fmt.Sprintf("after %s: %s", o, msg))
	}
	for _, d := range r.pool.Doubles {
		r.fail("C03", "node-double-put"+op, fmt.Sprintf("after %s: a buffer node struct was returned to the node pool twice", o))
		_ = d
	}
	r.pool.Doubles = nil
	for _, c := range r.caller {
		if fnv64(c.p) != c.sum {
			r.fail("C03", "caller-memory-written src="+c.name+op, fmt.Sprintf("after %s: caller-owned memory passed to %s was modified by netpoll", o, c.name))
		}
	}
	for _, c := range r.copies {
		if fnv64(c.p) != c.sum {
			r.fail("C03", "private-copy-written src="+c.name+op, fmt.Sprintf("after %s: the private copy (%s) changed", o, c.name))
		}
	}
}

func chainInvariant(ch netpoll.VerifChain, appended bool) string {
	if ch.Cycle {
		return "node chain has a cycle"
	}
	if ch.Head < 0 || ch.Read < 0 || ch.Flush < 0 || ch.Write < 0 {
		return fmt.Sprintf("a cursor is not reachable from head (head=%d read=%d flush=%d write=%d)", ch.Head, ch.Read, ch.Flush, ch.Write)
	}
	if !(ch.Head <= ch.Read && ch.Read <= ch.Flush && ch.Flush <= ch.Write) {
		return fmt.Sprintf("cursors out of order head=%d read=%d flush=%d write=%d", ch.Head, ch.Read, ch.Flush, ch.Write)
	}
	if appended {
		return ""
	}
	sum := 0
	for i := ch.Read; i <= ch.Flush; i++ {
		n := ch.Nodes[i]
		sum += n.Len - n.Off
	}
	if int64(sum) != ch.Length {
		return fmt.Sprintf("length=%d but read..flush nodes hold %d readable bytes", ch.Length, sum)
	}
	for i, n := range ch.Nodes {
		if n.Off > n.Len || n.Len > n.Malloc && i >= ch.Flush && n.Malloc != 0 {
			return fmt.Sprintf("node %d: off=%d len=%d malloc=%d", i, n.Off, n.Len, n.Malloc)
		}
	}
	// Look-ahead: bytes that are neither readable nor pending must not sit in the chain as
	// "malloc'ed but not yet flushed" anywhere, because the next Flush whose write cursor has moved
	// across such a node commits them (Flush publishes malloc as len for every node it passes).
	// So the pending bytes the chain holds from the flush node on must be exactly MallocSize,
	// and no node behind the write cursor may hold any.
	pend := 0
	for i := ch.Flush; i < len(ch.Nodes); i++ {
		n := ch.Nodes[i]
		if n.Malloc > n.Len {
			if i > ch.Write {
				return fmt.Sprintf("node %d behind the write cursor (%d) still holds %d malloc'ed, discarded bytes that a later Flush would publish", i, ch.Write, n.Malloc-n.Len)
			}
			pend += n.Malloc - n.Len
		}
	}
	if pend != ch.MallocSize {
		return fmt.Sprintf("nodes from the flush cursor on hold %d pending bytes but MallocLen is %d", pend, ch.MallocSize)
	}
	return ""
}

// key is the canonical state: implementation chain(s) + model counters + live result descriptors.
func (r *lbRun) key() uint64 {
	h := fnv.New64a()
	w := func(vs ...int) {
		var b [8]byte
		for _, v := range vs {
			for i := 0; i < 8; i++ {
				b[i] = byte(v >> (8 * i))
			}
			h.Write(b[:])
		}
	}
	chainKey := func(lb *netpoll.LinkBuffer) netpoll.VerifChain {
		ch := netpoll.VerifWalk(lb)
		w(len(ch.Nodes), ch.Head, ch.Read, ch.Flush, ch.Write, int(ch.Length), ch.MallocSize, ch.Caches, ch.CachePeekLen, ch.CachePeekCap)
		for _, n := range ch.Nodes {
			o := 0
			if n.HasOrigin {
				o = 1
			}
			w(n.Cap, n.Len, n.Off, n.Malloc, int(n.Mode), int(n.Refer), o)
		}
		return ch
	}
	locate := func(ch netpoll.VerifChain, p []byte) (int, int) {
		a := uintptr(unsafe.Pointer(&p[0]))
		for i, n := range ch.Nodes {
			if n.BufPtr != nil && a >= uintptr(n.BufPtr) && a < uintptr(n.BufPtr)+uintptr(n.Cap) {
				return i, int(a - uintptr(n.BufPtr))
			}
		}
		return -1, 0
	}
	var chains []netpoll.VerifChain
	if r.closed {
		w(-99)
		chains = append(chains, netpoll.VerifChain{})
	} else {
		chains = append(chains, chainKey(r.buf))
	}
	for _, s := range r.slices {
		if s.released && s.lb == nil {
			w(-7)
			chains = append(chains, netpoll.VerifChain{})
			continue
		}
		if s.lb != nil {
			chains = append(chains, chainKey(s.lb))
		} else {
			chains = append(chains, netpoll.VerifChain{})
		}
		w(len(s.m))
	}
	w(len(r.rd), len(r.pd), r.lastMalloc, r.wdRemain, b2i(r.batchWB), b2i(r.batchWD), b2i(r.appended), r.bookSize, r.maxSize)
	for i, c := range r.rd {
		if c == '\n' {
			w(-3, i)
		}
	}
	for i, c := range r.pd {
		if c == '\n' {
			w(-4, i)
		}
	}
	for _, x := range r.results {
		if x.dead {
			continue
		}
		ci := x.owner
		if ci < 0 {
			ci = 0
		}
		ni, off := -1, 0
		if ci < len(chains) {
			ni, off = locate(chains[ci], x.data)
		}
		w(-5, x.owner, len(x.data), ni, off)
	}
	return h.Sum64()
}

func b2i(b bool) int {
	if b {
		return 1
	}
	return 0
}

// ---- the search ----

type lbSearch struct {
	cfg      *lbCfg
	first    int // index of the first operation this shard owns (-1: all)
	maxDepth int
}

func (s *lbSearch) replay(hist []lbOp, checkLast bool) *lbRun {
	r := newLbRun(s.cfg)
	for i, o := range hist {
		if i < len(s.cfg.seed) && len(hist) > len(s.cfg.seed) {
			r.apply(o, false)
			continue
		}
		r.apply(o, checkLast && i == len(hist)-1)
	}
	return r
}

func histString(h []lbOp) []string {
	out := make([]string, len(h))
	for i, o := range h {
		out[i] = o.String()
	}
	return out
}

func (s *lbSearch) run(opt vsched.Options) *vsched.Report {
	rep := &vsched.Report{Scenario: "lb", Params: s.cfg.name, Ends: map[string]int64{}, Outcomes: map[string]int64{}, PBDone: -1}
	start := time.Now()
	defer func() {
		vsync.Ledger = nil
		alloc.Disable()
	}()
	found := map[string]*vsched.Found{}
	record := func(hist []lbOp, r *lbRun) {
		for _, v := range r.viol {
			f := found[v.Sig]
			if f == nil {
				f = &vsched.Found{Sig: v.Sig, Msg: v.Msg, Trace: histString(hist)}
				for _, o := range hist {
					f.Choices = append(f.Choices, int32(o.K), int32(o.N), int32(o.M))
				}
				found[v.Sig] = f
			}
			f.Count++
		}
	}
	finish := func() *vsched.Report {
		keys := make([]string, 0, len(found))
		for k := range found {
			keys = append(keys, k)
		}
		sort.Strings(keys)
		for _, k := range keys {
			rep.Found = append(rep.Found, found[k])
		}
		rep.WallS = time.Since(start).Seconds()
		return rep
	}
	if opt.Prefix != nil { // replay of a recorded operation list
		var hist []lbOp
		for i := 0; i+2 < len(opt.Prefix); i += 3 {
			hist = append(hist, lbOp{K: opKind(opt.Prefix[i]), N: int(opt.Prefix[i+1]), M: int(opt.Prefix[i+2])})
		}
		for d := 1; d <= len(hist); d++ {
			r := s.replay(hist[:d], true)
			record(hist[:d], r)
		}
		return finish()
	}
	visited := map[uint64]struct{}{}
	frontier := [][]lbOp{append([]lbOp{}, s.cfg.seed...)}
	visited[s.replay(s.cfg.seed, false).key()] = struct{}{}
	maxDepth := s.maxDepth
	if opt.MaxDepth > 0 {
		maxDepth = opt.MaxDepth
	}
	capped := false
	for depth := 0; depth < maxDepth && len(frontier) > 0 && !capped; depth++ {
		var next [][]lbOp
		for _, hist := range frontier {
			base := s.replay(hist, false)
			ops := base.enabled()
			for oi, o := range ops {
				if depth == 0 && s.first >= 0 && oi != s.first {
					continue
				}
				nh := append(append(make([]lbOp, 0, len(hist)+1), hist...), o)
				r := s.replay(nh, true)
				rep.Steps++ // transitions
				rep.Execs++
				if len(r.viol) > 0 {
					record(nh, r)
					rep.Outcomes["violating"]++
					continue // do not extend a history past a violation
				}
				k := r.key()
				if _, ok := visited[k]; ok {
					rep.Pruned++
					continue
				}
				visited[k] = struct{}{}
				rep.Outcomes[opNames[o.K]]++
				if len(rep.Samples) < 3 && depth >= 2 && rep.Execs%97 == 0 {
					rep.Samples = append(rep.Samples, histString(nh))
				}
				next = append(next, nh)
			}
			if !opt.Deadline.IsZero() && rep.Execs%256 == 0 && time.Now().After(opt.Deadline) {
				capped = true
				rep.CapHit = fmt.Sprintf("deadline during depth %d", depth+1)
				break
			}
		}
		if !capped {
			rep.PBDone = depth + 1 // depth completed
			rep.MaxSteps = depth + 1
		}
		frontier = next
	}
	if len(rep.Samples) == 0 && len(frontier) > 0 {
		rep.Samples = append(rep.Samples, histString(frontier[0]))
	}
	rep.States = int64(len(visited))
	rep.Exhaustive = !capped
	rep.DBDone = rep.PBDone
	return finish()
}

func lbConfigs(tier string) []*lbCfg {
	small := []int{1, 3, 8, 9, 4097}
	smallR := []int{1, 3, 8, 9}
	cfgs := []*lbCfg{
		{name: "small:cap8:init0", nodeCap: 8, initCap: -1, wsizes: small, rsizes: smallR},
		{name: "small:cap8:init9", nodeCap: 8, initCap: 9, wsizes: small, rsizes: smallR},
		{name: "poller:cap8:buf8", nodeCap: 8, poller: true, bufSize: 8, rsizes: smallR},
		{name: "poller:cap4096:buf8192", nodeCap: 4096, poller: true, bufSize: 8192, rsizes: []int{1, 4096, 8192, 8193}},
		{name: "full:cap4096:init0", nodeCap: 4096, initCap: -1, wsizes: []int{1, 1023, 1025, 4095, 4096, 4097, 8192, 8193}, rsizes: []int{1, 1024, 1025, 4096, 4097, 8192, 8193}},
		{name: "full:cap4096:init8193", nodeCap: 4096, initCap: 8193, wsizes: []int{1, 1024, 4096, 4097, 8191, 8193}, rsizes: []int{1, 1024, 1025, 4096, 8192}},
	}
	seeds := map[string][]lbOp{
		"wdsplit":   {{K: oMalloc, N: 8}, {K: oMalloc, N: 1}, {K: oWriteDirect, N: 3, M: 1}, {K: oFlush}},
		"wdmid":     {{K: oMalloc, N: 9}, {K: oWriteDirect, N: 3, M: 4}, {K: oFlush}},
		"wdpending": {{K: oMalloc, N: 8}, {K: oWriteDirect, N: 3, M: 1}}, // split still unflushed: MallocAck may cut it
		"nocopy":    {{K: oWriteBinary, N: 4097}, {K: oMalloc, N: 3}, {K: oFlush}},
		"multiread": {{K: oMalloc, N: 8}, {K: oFlush}, {K: oMalloc, N: 8}, {K: oFlush}, {K: oMalloc, N: 3}, {K: oFlush}, {K: oNext, N: 9}},
		"peekcache": {{K: oAppend, M: 2}, {K: oFlush}, {K: oPeek, N: 9}},
		"sliced":    {{K: oMalloc, N: 8}, {K: oFlush}, {K: oMalloc, N: 8}, {K: oFlush}, {K: oSlice, N: 9}},
		"pending":   {{K: oMalloc, N: 8}, {K: oFlush}, {K: oMalloc, N: 9}, {K: oMallocAck, N: 1}},
	}
	var names []string
	for n := range seeds {
		names = append(names, n)
	}
	sort.Strings(names)
	for _, n := range names {
		cfgs = append(cfgs, &lbCfg{name: "seed-" + n + ":cap8", nodeCap: 8, initCap: -1, wsizes: small, rsizes: smallR, seed: seeds[n]})
	}
	cfgs = append(cfgs, &lbCfg{name: "seed-poller:cap8", nodeCap: 8, poller: true, bufSize: 8, rsizes: smallR,
		seed: []lbOp{{K: oRecv, N: 8, M: 8}, {K: oRecv, N: 16, M: 16}, {K: oNext, N: 3}}})
	// poller mode with maxSize grown beyond bookSize (several partial reads left unread): the next
	// nodes are larger than one booking, so two consecutive bookings land in the same node
	cfgs = append(cfgs, &lbCfg{name: "seed-poller-maxgrown:cap8", nodeCap: 8, poller: true, bufSize: 8, rsizes: smallR,
		seed: []lbOp{{K: oRecv, N: 4, M: 8}, {K: oRecv, N: 4, M: 8}, {K: oRecv, N: 4, M: 8}, {K: oRecv, N: 4, M: 8}}})
	return cfgs
}

func lbDepth(cfg *lbCfg, tier string) int {
	if len(cfg.seed) > 0 {
		if tier == "thorough" {
			return 5
		}
		return 3
	}
	d := 4
	if strings.HasPrefix(cfg.name, "small") || strings.HasPrefix(cfg.name, "poller:cap8") {
		d = 6
	}
	if tier == "thorough" {
		d += 2
	}
	return d
}

func init() {
	register("lb", func(tier string) []Variant {
		var vs []Variant
		for _, cfg := range lbConfigs(tier) {
			r0 := newLbRun(cfg)
			for _, o := range cfg.seed {
				r0.apply(o, false)
			}
			n := len(r0.enabled())
			vsync.Ledger = nil
			alloc.Disable()
			for f := 0; f < n; f++ {
				cfg, f := cfg, f
				vs = append(vs, Variant{
					Name: fmt.Sprintf("%s:first=%d", cfg.name, f),
					Run: func(opt vsched.Options) *vsched.Report {
						s := &lbSearch{cfg: cfg, first: f, maxDepth: lbDepth(cfg, tier)}
						return s.run(opt)
					},
				})
			}
		}
		return vs
	})
}
