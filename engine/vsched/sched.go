// Package vsched is the controlled cooperative scheduler under which the
// instrumented netpoll code and the harness threads run, plus the
// stateless depth-first explorer (explore.go).
//
// Discipline: every function in this package is //go:norace and uses no maps,
// channels or sync primitives for state shared between threads, so that in a
// -race build the scheduler's own hand-offs are invisible to ThreadSanitizer and
// the detector sees only the program's synchronisation (DESIGN.md 2.7).
package vsched

import (
	"fmt"
	"runtime"
	"runtime/debug"
	"strings"
	"sync/atomic"
	"time"
	"unsafe"
)

type Kind uint8

const (
	KStart Kind = iota
	KRead
	KWrite
	KLock
	KUnlock
	KRecv
	KSend
	KClose
	KSelect
	KSys
	KEpollWait
	KYield
	KSpawn
	KExit
	KPlain
	KLog
	KEnv
	KTimerFire
	KCond
	KTimerOp
)

var kindNames = [...]string{"start", "read", "write", "lock", "unlock", "recv", "send", "close", "select", "sys", "epollwait", "yield", "spawn", "exit", "plain", "log", "env", "timerfire", "cond", "timerop"}

//go:norace
func (k Kind) String() string { return kindNames[k] }

// Well-known object ids (real objects are identified by address, all > 4096).
const (
	ObjKernel uintptr = 1
	ObjLog    uintptr = 2
	ObjClock  uintptr = 3
)

type abortT struct{}

// AbortSentinel is panicked through every thread when an execution ends.
var AbortSentinel = &abortT{}

// HandlerPanic is the harness's own deliberate panic value (a panicking user callback).
type HandlerPanic struct{ Msg string }

type pendOp struct {
	kind  Kind
	obj   uintptr
	write bool
	ready func() bool // nil = always enabled
	dynW  func() bool // if set: evaluated when the step is taken to decide read vs write (CAS)
	what  string
}

type Thread struct {
	ID      int
	Name    string
	nameH   uint64
	wake    uint32
	exited  uint32
	done    bool
	fence   int64
	endDone bool // done when the execution ended (before the abort pass finished every thread)
	started bool
	Daemon  bool
	yielded bool
	runLen  int  // steps taken since this thread was last switched in
	hogCnt  int  // busy-poll hints since it was last switched in (see HogHint)
	forced  bool // resumed from a yield although nobody else made progress; cleared by its next write
	pend    pendOp
	h       uint64
	spawns  uint64
	fn      func()
	ex      *Exec
}

type Event struct {
	Thread int
	Msg    string
	Step   int
}

type PanicRec struct {
	Thread string
	Val    string
	Stack  string
}

type EndKind uint8

const (
	EndNone EndKind = iota
	EndQuiescent
	EndDeadlock
	EndLivelock
	EndHorizon
	EndPruned
	EndAbortReq // a harness oracle asked to stop (violation found mid-run)
	EndNondet
)

var endNames = [...]string{"none", "quiescent", "deadlock", "livelock", "horizon", "pruned", "abortreq", "nondeterminism"}

//go:norace
func (e EndKind) String() string { return endNames[e] }

type pointRec struct {
	n        int32
	env      bool  // environment choice (deviation budget) vs scheduling (preemption budget)
	costOff  int32 // index into costs arena (n entries)
	pbBefore int16
	dbBefore int16
}

type vtimer struct {
	id       uintptr
	armed    bool
	deadline int64
	fire     func()
	name     string
	seq      uint64
}

// Exec is one execution of a scenario under the scheduler.
type Exec struct {
	threads  []*Thread
	running  *Thread
	prefix   []int32
	choices  []int32
	points   []pointRec
	costs    []uint8
	pbUsed   int
	dbUsed   int
	pbMax    int
	dbMax    int
	Steps    int
	horizon  int
	aborting bool
	ended    uint32
	End      EndKind
	EndMsg   string
	Log      []Event
	Panics   []PanicRec
	timers   []*vtimer
	Clock    int64
	timerSeq uint64

	objs   objTab
	thrSum uint64
	objSum uint64
	cache  *stateCache
	useHB  bool

	TraceOn bool
	Trace   []string
	fp      uint64 // fingerprint of the run (thread,kind sequence) for determinism checks

	cleanups      []func()
	Locals        [8]interface{} // per-execution storage for shims/harness (slots by convention)
	epoch         uint64         // bumped on every kernel step: readiness probe cache key
	Blocked       []string       // filled at end: description of blocked threads
	closed        *ptrSet
	HorizonUnfair bool
}

var cur *Exec

// execFence orders executions for the race detector: the driver releases it after every thread of
// an execution has exited, every thread acquires it when it starts. Within one execution it adds no
// happens-before edge (only the driver ever writes it).
var execFence int64

// fairLimit: see schedule.
const fairLimit = 2000

// hogLimit: a thread that issued this many non-blocking polls in a row without being
// switched out is busy-waiting for somebody else (e.g. the poller re-fetching a
// level-triggered event whose descriptor another thread is about to deregister).
const hogLimit = 2

// HogHint is called by the syscall shim for every non-blocking poll (epoll_wait with
// timeout 0); it reports true when the thread should yield (the caller then calls Yield).
//
//go:norace
func HogHint(reset bool) bool {
	ex := cur
	if ex == nil || ex.running == nil {
		return false
	}
	if reset {
		ex.running.hogCnt = 0
		return false
	}
	ex.running.hogCnt++
	if ex.running.hogCnt >= hogLimit {
		ex.running.hogCnt = 0
		return true
	}
	return false
}

// Cur returns the active execution or nil (passthrough mode).
//
//go:norace
func Cur() *Exec { return cur }

//go:norace
func Active() bool { return cur != nil }

//go:norace
func park(t *Thread) {
	for t.wake == 0 {
		runtime.Gosched()
	}
	t.wake = 0
}

//go:norace
func unpark(t *Thread) { t.wake = 1 }

//go:norace
func (ex *Exec) newThread(name string, daemon bool, parent *Thread, fn func()) *Thread {
	t := &Thread{ID: len(ex.threads), Name: name, Daemon: daemon, fn: fn, ex: ex}
	if parent != nil {
		parent.spawns++
		t.nameH = mix3(parent.h, parent.spawns, 0x5eed)
	} else {
		t.nameH = mix3(uint64(len(ex.threads)+1), 0x1234, 0)
	}
	t.h = t.nameH
	t.pend = pendOp{kind: KStart}
	ex.threads = append(ex.threads, t)
	ex.thrSum += ex.thrKey(t)
	go ex.threadMain(t)
	return t
}

//go:norace
func (ex *Exec) thrKey(t *Thread) uint64 {
	var f uint64
	if t.done {
		f |= 1
	}
	if t.yielded {
		f |= 2
	}
	if t.forced {
		f |= 4
	}
	return mix3(t.nameH, t.h, f)
}

//go:norace
func (ex *Exec) threadMain(t *Thread) {
	defer func() {
		atomic.StoreInt64(&t.fence, 1) // release: the driver acquires it before it judges the execution
		t.exited = 1
	}()
	ex.threadBody(t)
	if ex.aborting {
		t.done = true
		return
	}
	ex.exitStep(t)
}

//go:norace
func (ex *Exec) threadBody(t *Thread) {
	defer func() {
		r := recover()
		if r != nil && r != AbortSentinel {
			ex.recordPanic(t, r)
		}
	}()
	park(t)
	atomic.LoadInt64(&execFence) // acquire: everything earlier executions did happens before this thread
	if ex.aborting {
		return
	}
	ex.commit(t)
	t.fn()
}

//go:norace
func (ex *Exec) exitStep(t *Thread) {
	defer func() {
		r := recover()
		if r != nil && r != AbortSentinel {
			panic(r)
		}
	}()
	ex.onExit(t)
}

//go:norace
func (ex *Exec) recordPanic(t *Thread, r interface{}) {
	if ex.aborting {
		return
	}
	if hp, ok := r.(*HandlerPanic); ok {
		ex.logEvent(t, "panic:"+hp.Msg)
		return
	}
	st := string(debug.Stack())
	ex.Panics = append(ex.Panics, PanicRec{Thread: t.Name, Val: fmt.Sprint(r), Stack: st})
	ex.logEvent(t, "PANIC:"+fmt.Sprint(r))
}

// onExit is the final step of a thread that returned normally.
//
//go:norace
func (ex *Exec) onExit(t *Thread) {
	ex.thrSum -= ex.thrKey(t)
	t.done = true
	t.h = mix3(t.h, 0xdead, 0)
	ex.thrSum += ex.thrKey(t)
	if ex.TraceOn {
		ex.Trace = append(ex.Trace, fmt.Sprintf("T%d(%s) exit", t.ID, t.Name))
	}
	ex.running = nil
	ex.schedule(nil)
}

// Go spawns a scheduled thread (or a plain goroutine in passthrough mode).
//
//go:norace
func Go(name string, fn func()) { goImpl(name, false, fn) }

// GoDaemon spawns a thread that is allowed to stay blocked at quiescence.
//
//go:norace
func GoDaemon(name string, fn func()) { goImpl(name, true, fn) }

//go:norace
func goImpl(name string, daemon bool, fn func()) {
	ex := cur
	if ex == nil {
		go fn()
		return
	}
	if ex.aborting {
		panic(AbortSentinel)
	}
	t := ex.running
	ex.newThread(name, daemon, t, fn)
	Point(KSpawn, 0, true, "spawn "+name)
}

// Point announces the next operation of the running thread and lets the
// scheduler decide who runs. It returns when this thread may perform it.
//
//go:norace
func Point(kind Kind, obj uintptr, write bool, what string) {
	ex := cur
	if ex == nil {
		return
	}
	if ex.aborting {
		panic(AbortSentinel)
	}
	t := ex.running
	if ex.TraceOn {
		what += callerStr()
	}
	t.pend = pendOp{kind: kind, obj: obj, write: write, what: what}
	ex.schedule(t)
	ex.commit(t)
}

// callerStr renders the innermost two frames outside the engine (trace mode only).
//
//go:norace
func callerStr() string {
	var pcs [16]uintptr
	n := runtime.Callers(3, pcs[:])
	fr := runtime.CallersFrames(pcs[:n])
	var parts []string
	for {
		f, more := fr.Next()
		if !strings.Contains(f.Function, "verif/engine/") && f.Function != "" {
			fn := f.Function
			if i := strings.LastIndex(fn, "/"); i >= 0 {
				fn = fn[i+1:]
			}
			file := f.File
			if i := strings.LastIndex(file, "/"); i >= 0 {
				file = file[i+1:]
			}
			parts = append(parts, fmt.Sprintf("%s(%s:%d)", fn, file, f.Line))
			if len(parts) == 2 {
				break
			}
		}
		if !more {
			break
		}
	}
	return " @" + strings.Join(parts, "<")
}

// PointDyn is Point for an operation whose read/write nature is only known when
// it executes (compare-and-swap: a failing CAS is a read).
//
//go:norace
func PointDyn(obj uintptr, what string, isWrite func() bool) {
	ex := cur
	if ex == nil {
		return
	}
	if ex.aborting {
		panic(AbortSentinel)
	}
	t := ex.running
	if ex.TraceOn {
		what += callerStr()
	}
	t.pend = pendOp{kind: KWrite, obj: obj, write: true, dynW: isWrite, what: what}
	ex.schedule(t)
	ex.commit(t)
}

// Block is a Point that is enabled only while ready() holds.
//
//go:norace
func Block(kind Kind, obj uintptr, what string, ready func() bool) {
	ex := cur
	if ex == nil {
		return
	}
	if ex.aborting {
		panic(AbortSentinel)
	}
	t := ex.running
	if ex.TraceOn {
		what += callerStr()
	}
	t.pend = pendOp{kind: kind, obj: obj, write: true, ready: ready, what: what}
	ex.schedule(t)
	ex.commit(t)
}

// Yield is runtime.Gosched under the scheduler: the thread is not schedulable
// again until another thread has changed some state.
//
//go:norace
func Yield() {
	ex := cur
	if ex == nil {
		runtime.Gosched()
		return
	}
	if ex.aborting {
		panic(AbortSentinel)
	}
	t := ex.running
	ex.thrSum -= ex.thrKey(t)
	t.yielded = true
	ex.thrSum += ex.thrKey(t)
	t.pend = pendOp{kind: KYield, what: "yield"}
	ex.schedule(t)
	ex.commit(t)
}

// WaitCond blocks the calling harness thread until ready() holds.
//
//go:norace
func WaitCond(what string, ready func() bool) {
	if cur == nil {
		for !ready() {
			runtime.Gosched()
		}
		return
	}
	Block(KCond, 0, what, ready)
}

// Settle blocks the calling harness thread until no other thread can run
// (everything else finished, blocked, or politely yielding with nothing to do).
//
//go:norace
func Settle(what string) {
	ex := cur
	if ex == nil {
		return
	}
	me := ex.running
	Block(KCond, 0, "settle:"+what, func() bool {
		for _, t := range ex.threads {
			if t != me && !t.done && ex.enabled(t) {
				return false
			}
		}
		return true
	})
}

// LogEvent appends a harness observation; ordered observations are modelled
// as writes to a log object so that state caching distinguishes their orders.
//
//go:norace
func LogEvent(msg string) {
	ex := cur
	if ex == nil {
		return
	}
	if ex.aborting {
		return
	}
	// A logged event is what the oracles order against other threads' events, so it is a
	// scheduling point of its own: without it the window "after the thread's last intercepted
	// operation, before the plain code that calls back into the harness" (e.g. between a
	// worker's unlock and its call of a user callback) could not be given to another thread.
	if LogPoints {
		Point(KLog, ObjLog, true, "log")
	}
	t := ex.running
	ex.logEvent(t, msg)
}

// LogPoints makes every LogEvent a scheduling point (default on).
var LogPoints = true

//go:norace
func (ex *Exec) logEvent(t *Thread, msg string) {
	ex.Log = append(ex.Log, Event{Thread: t.ID, Msg: msg, Step: ex.Steps})
	if ex.useHB {
		o := ex.objs.get(ObjLog)
		ex.objSum -= o.key()
		ex.thrSum -= ex.thrKey(t)
		t.h = mix3(t.h, o.lastW, strHash(msg))
		o.lastW = t.h
		o.readers = 0
		ex.objSum += o.key()
		ex.thrSum += ex.thrKey(t)
	}
	if ex.TraceOn {
		ex.Trace = append(ex.Trace, fmt.Sprintf("T%d(%s) LOG %s", t.ID, t.Name, msg))
	}
}

// RequestEnd lets an in-execution oracle stop the run (e.g. invariant broken).
//
//go:norace
func RequestEnd(msg string) {
	ex := cur
	if ex == nil {
		return
	}
	ex.finish(EndAbortReq, msg)
	panic(AbortSentinel)
}

// OnEnd registers a cleanup run by the driver after the execution ended.
//
//go:norace
func (ex *Exec) OnEnd(f func()) { ex.cleanups = append(ex.cleanups, f) }

//go:norace
func (ex *Exec) Running() *Thread { return ex.running }

//go:norace
func (ex *Exec) Threads() []*Thread { return ex.threads }

//go:norace
func (t *Thread) Done() bool {
	if t.ex.ended != 0 {
		return t.endDone
	}
	return t.done
}

//go:norace
func (t *Thread) PendingWhat() string {
	w := t.pend.what
	if i := strings.Index(w, " @"); i >= 0 {
		w = w[:i] // the caller suffix only exists in trace mode: keep signatures identical in both modes
	}
	return t.pend.kind.String() + ":" + w
}

// Epoch changes whenever a kernel-affecting step ran (probe cache key).
//
//go:norace
func (ex *Exec) Epoch() uint64 { return ex.epoch }

//go:norace
func (ex *Exec) enabled(t *Thread) bool {
	if t.done {
		return false
	}
	if t.pend.kind == KYield && t.yielded {
		return false
	}
	if t.pend.ready != nil {
		return t.pend.ready()
	}
	return true
}

// schedule picks the next thread to run. cur is the calling thread (nil when
// the caller just exited). It returns when cur has been chosen; if another
// thread is chosen cur parks. When nothing can run the execution ends.
//
//go:norace
func (ex *Exec) schedule(me *Thread) {
	var optsBuf [16]int32
	for {
		opts := optsBuf[:0]
		// canonical order: running thread first if enabled, then ascending ids, then timers
		meEnabled := me != nil && ex.enabled(me)
		// fairness: a thread that has run fairLimit steps in a row while others could
		// run is treated as if it had yielded (busy loops such as the poller's
		// epoll_wait(0) loop contain no runtime.Gosched); switching away is then free.
		hog := meEnabled && me.runLen >= fairLimit
		if meEnabled && !hog {
			opts = append(opts, int32(me.ID))
		}
		for _, t := range ex.threads {
			if t == me {
				continue
			}
			if ex.enabled(t) {
				opts = append(opts, int32(t.ID))
			}
		}
		if hog {
			if len(opts) == 0 {
				opts = append(opts, int32(me.ID))
			} else {
				meEnabled = false
			}
		}
		if len(opts) == 0 {
			// nobody can run: a thread that yielded politely (runtime.Gosched without
			// waiting for anybody) simply continues; one that was already resumed this
			// way and has changed nothing since is spinning on a condition nobody can
			// make true (livelock unless a timer fires).
			for _, t := range ex.threads {
				if !t.done && t.pend.kind == KYield && t.yielded && !t.forced {
					opts = append(opts, int32(t.ID))
				}
			}
			if len(opts) > 0 {
				pick := 0
				if len(opts) > 1 {
					pick = ex.choose(false, make([]uint8, len(opts)))
				}
				t := ex.threads[opts[pick]]
				ex.thrSum -= ex.thrKey(t)
				t.yielded = false
				t.forced = true
				ex.thrSum += ex.thrKey(t)
				if t == me {
					return
				}
				ex.running = t
				unpark(t)
				if me != nil {
					park(me)
					if ex.aborting {
						panic(AbortSentinel)
					}
				}
				return
			}
		}
		nThreads := len(opts)
		// timers: the earliest armed deadline(s) may fire
		var minDl int64 = -1
		for _, tm := range ex.timers {
			if tm.armed && (minDl < 0 || tm.deadline < minDl) {
				minDl = tm.deadline
			}
		}
		if minDl >= 0 {
			for i, tm := range ex.timers {
				if tm.armed && tm.deadline == minDl {
					opts = append(opts, int32(-1-i))
				}
			}
		}
		if len(opts) == 0 {
			ex.endNoEnabled()
			if me != nil {
				panic(AbortSentinel)
			}
			return
		}
		if nThreads == 0 && len(opts) > 0 {
			// only timers can move: time passes for free; but spinning yielders with no
			// timer would be a livelock, with a timer they are just waiting for it.
		}
		// costs
		var costBuf [16]uint8
		costs := costBuf[:0]
		for i := range opts {
			var c uint8
			if i == 0 {
				c = 0
			} else if opts[i] >= 0 {
				if meEnabled && me.pend.kind != KYield {
					c = 1
				}
			} else { // timer
				if nThreads > 0 {
					c = 1
				}
			}
			costs = append(costs, c)
		}
		// a timer as option 0 only happens when no thread is enabled
		pick := 0
		if len(opts) > 1 {
			pick = ex.choose(false, costs)
		}
		id := opts[pick]
		if id < 0 {
			tm := ex.timers[-1-id]
			ex.fireTimer(tm)
			continue
		}
		t := ex.threads[id]
		if t == me {
			return
		}
		t.runLen = 0
		t.hogCnt = 0
		ex.running = t
		unpark(t)
		if me != nil {
			park(me)
			if ex.aborting {
				panic(AbortSentinel)
			}
		}
		return
	}
}

//go:norace
func (ex *Exec) endNoEnabled() {
	// classify
	kind := EndQuiescent
	var sb strings.Builder
	for _, t := range ex.threads {
		if t.done {
			continue
		}
		if t.pend.kind == KYield && t.yielded {
			kind = EndLivelock
			fmt.Fprintf(&sb, "T%d(%s) spinning;", t.ID, t.Name)
			ex.Blocked = append(ex.Blocked, fmt.Sprintf("T%d(%s) spinning at %s", t.ID, t.Name, t.pend.what))
			continue
		}
		ex.Blocked = append(ex.Blocked, fmt.Sprintf("T%d(%s) blocked at %s:%s", t.ID, t.Name, t.pend.kind, t.pend.what))
		if !t.Daemon {
			if kind != EndLivelock {
				kind = EndDeadlock
			}
			fmt.Fprintf(&sb, "T%d(%s) blocked at %s:%s;", t.ID, t.Name, t.pend.kind, t.pend.what)
		}
	}
	ex.finish(kind, sb.String())
}

//go:norace
func (ex *Exec) finish(kind EndKind, msg string) {
	if ex.ended != 0 {
		return
	}
	ex.End = kind
	ex.EndMsg = msg
	for _, t := range ex.threads {
		t.endDone = t.done
	}
	ex.aborting = true
	ex.ended = 1
}

// choose records a choice point with len(costs) options and returns the pick.
//
//go:norace
func (ex *Exec) choose(env bool, costs []uint8) int {
	i := len(ex.choices)
	n := len(costs)
	// state cache: only beyond the replayed prefix
	if ex.cache != nil && i >= len(ex.prefix) && !env {
		if ex.cache.seen(ex.stateKey(), ex.pbMax-ex.pbUsed, ex.dbMax-ex.dbUsed) {
			ex.finish(EndPruned, "")
			panic(AbortSentinel)
		}
	}
	pick := 0
	if i < len(ex.prefix) {
		pick = int(ex.prefix[i])
		if pick >= n {
			ex.finish(EndNondet, fmt.Sprintf("choice %d: prefix wants option %d of %d", i, pick, n))
			panic(AbortSentinel)
		}
	}
	off := len(ex.costs)
	ex.costs = append(ex.costs, costs...)
	ex.points = append(ex.points, pointRec{n: int32(n), env: env, costOff: int32(off), pbBefore: int16(ex.pbUsed), dbBefore: int16(ex.dbUsed)})
	ex.choices = append(ex.choices, int32(pick))
	if env {
		ex.dbUsed += int(costs[pick])
	} else {
		ex.pbUsed += int(costs[pick])
	}
	ex.fp = mix3(ex.fp, uint64(pick), uint64(n))
	return pick
}

// Choose is an environment choice made by the running thread: option 0 is
// the default answer, any other option costs one deviation.
//
//go:norace
func Choose(n int, what string) int {
	ex := cur
	if ex == nil || n <= 1 {
		return 0
	}
	if ex.aborting {
		panic(AbortSentinel)
	}
	var buf [64]uint8
	costs := buf[:0]
	for i := 0; i < n; i++ {
		c := uint8(1)
		if i == 0 {
			c = 0
		}
		costs = append(costs, c)
	}
	// the running thread's identity is part of the state; make sure env picks are hashed
	pick := ex.choose(true, costs)
	t := ex.running
	if ex.useHB {
		ex.thrSum -= ex.thrKey(t)
		t.h = mix3(t.h, 0xc401ce, uint64(pick))
		ex.thrSum += ex.thrKey(t)
	}
	if ex.TraceOn {
		ex.Trace = append(ex.Trace, fmt.Sprintf("T%d(%s) ENV %s -> %d/%d", t.ID, t.Name, what, pick, n))
	}
	return pick
}

// progress: a state-changing step by t re-enables yielders.
//
//go:norace
func (ex *Exec) progress(t *Thread) {
	for _, o := range ex.threads {
		if o != t && o.yielded {
			ex.thrSum -= ex.thrKey(o)
			o.yielded = false
			ex.thrSum += ex.thrKey(o)
		}
	}
}

// commit records that t performs its pending op now.
//
//go:norace
func (ex *Exec) commit(t *Thread) {
	ex.Steps++
	t.runLen++
	op := &t.pend
	if ex.Steps > ex.horizon {
		// an unfair schedule (someone else could run but the default schedule keeps
		// choosing a busy loop) is inconclusive; a thread looping while nobody else
		// can ever run is genuine non-termination.
		for _, o := range ex.threads {
			if o != t && ex.enabled(o) {
				ex.HorizonUnfair = true
			}
		}
		ex.finish(EndHorizon, fmt.Sprintf("T%d(%s) at %s:%s", t.ID, t.Name, op.kind, op.what))
		panic(AbortSentinel)
	}
	ex.fp = mix3(ex.fp, uint64(t.ID), uint64(op.kind))
	if op.kind == KYield {
		// the yielder resumes; nothing changed
		if ex.TraceOn {
			ex.Trace = append(ex.Trace, fmt.Sprintf("T%d(%s) resume-after-yield", t.ID, t.Name))
		}
		return
	}
	if t.yielded {
		ex.thrSum -= ex.thrKey(t)
		t.yielded = false
		ex.thrSum += ex.thrKey(t)
	}
	obj := op.obj
	if op.dynW != nil {
		op.write = op.dynW()
		if !op.write {
			op.kind = KRead
		}
		op.dynW = nil
	}
	switch op.kind {
	case KSys, KEpollWait:
		obj = ObjKernel
		ex.epoch++
	}
	if ex.useHB {
		ex.thrSum -= ex.thrKey(t)
		if obj != 0 {
			o := ex.objs.get(obj)
			ex.objSum -= o.key()
			if op.write {
				t.h = mix3(t.h, o.lastW+o.readers*0x9e3779b97f4a7c15, uint64(op.kind))
				o.lastW = t.h
				o.readers = 0
			} else {
				t.h = mix3(t.h, o.lastW, uint64(op.kind)|0x100)
				o.readers += mix3(t.h, 1, 2)
			}
			ex.objSum += o.key()
		} else {
			t.h = mix3(t.h, uint64(op.kind), 0x77)
		}
		ex.thrSum += ex.thrKey(t)
	}
	if op.write {
		ex.progress(t)
		if t.forced {
			ex.thrSum -= ex.thrKey(t)
			t.forced = false
			ex.thrSum += ex.thrKey(t)
		}
	}
	if ex.TraceOn {
		rw := "r"
		if op.write {
			rw = "w"
		}
		ex.Trace = append(ex.Trace, fmt.Sprintf("T%d(%s) %s/%s %s", t.ID, t.Name, op.kind, rw, op.what))
	}
}

//go:norace
func (ex *Exec) stateKey() uint64 {
	var r uint64
	if ex.running != nil {
		r = ex.running.nameH
	}
	return mix3(ex.thrSum, ex.objSum, r)
}

// ---- timers (used by vtime / vcontext) ----

// NewTimer registers a virtual timer; fire runs in scheduler context (must not block).
//
//go:norace
func (ex *Exec) NewTimer(name string, fire func()) int {
	ex.timerSeq++
	tm := &vtimer{id: uintptr(0x1000 + len(ex.timers)), fire: fire, name: name, seq: ex.timerSeq}
	ex.timers = append(ex.timers, tm)
	return len(ex.timers) - 1
}

//go:norace
func (ex *Exec) ArmTimer(idx int, deadline int64) (wasArmed bool) {
	tm := ex.timers[idx]
	wasArmed = tm.armed
	tm.armed = true
	tm.deadline = deadline
	return
}

//go:norace
func (ex *Exec) DisarmTimer(idx int) (wasArmed bool) {
	tm := ex.timers[idx]
	wasArmed = tm.armed
	tm.armed = false
	return
}

//go:norace
func (ex *Exec) TimerObj(idx int) uintptr { return ex.timers[idx].id }

//go:norace
func (ex *Exec) fireTimer(tm *vtimer) {
	ex.Steps++
	if ex.Steps > ex.horizon {
		ex.finish(EndHorizon, "timer "+tm.name)
		panic(AbortSentinel)
	}
	tm.armed = false
	if tm.deadline > ex.Clock {
		ex.Clock = tm.deadline
	}
	ex.fp = mix3(ex.fp, 0xf12e, uint64(tm.id))
	if ex.useHB {
		o := ex.objs.get(tm.id)
		ex.objSum -= o.key()
		o.lastW = mix3(o.lastW+o.readers, 0xf12e, uint64(ex.Clock))
		o.readers = 0
		ex.objSum += o.key()
		c := ex.objs.get(ObjClock)
		ex.objSum -= c.key()
		c.lastW = mix3(c.lastW+c.readers, uint64(ex.Clock), 3)
		c.readers = 0
		ex.objSum += c.key()
	}
	if ex.TraceOn {
		ex.Trace = append(ex.Trace, fmt.Sprintf("TIMER %s fires (clock=%dms)", tm.name, ex.Clock/1e6))
	}
	// the fire event is an observation the oracles order against harness events
	ex.Log = append(ex.Log, Event{Thread: -1, Msg: "timer:fire:" + tm.name, Step: ex.Steps})
	if ex.useHB {
		o := ex.objs.get(ObjLog)
		ex.objSum -= o.key()
		o.lastW = mix3(o.lastW, 0xf12e, uint64(tm.id))
		o.readers = 0
		ex.objSum += o.key()
	}
	tm.fire()
	ex.progress(nil)
}

// TouchObj lets scheduler-context code (timer fire callbacks) record a write to an object.
//
//go:norace
func (ex *Exec) TouchObj(obj uintptr, salt uint64) {
	if !ex.useHB {
		return
	}
	o := ex.objs.get(obj)
	ex.objSum -= o.key()
	o.lastW = mix3(o.lastW+o.readers, salt, 0x70c4)
	o.readers = 0
	ex.objSum += o.key()
}

// SpawnDetached creates a thread from scheduler context (timer callbacks): no scheduling point.
//
//go:norace
func (ex *Exec) SpawnDetached(name string, fn func()) {
	ex.newThread(name, false, nil, fn)
}

// PlainPoint is a statement-level scheduling point inside the deliberately
// lock-free buffer region (instrumenter option -fine); obj is the buffer.
//
//go:norace
func PlainPoint(obj unsafe.Pointer, what string) {
	if cur == nil {
		return
	}
	Point(KPlain, uintptr(obj), true, what)
}

// EnvIntn replaces fastrand.Intn: an explored environment choice.
//
//go:norace
func EnvIntn(n int) int {
	if cur == nil {
		return int(time.Now().UnixNano() % int64(n))
	}
	return Choose(n, "rand")
}
