package main

import (
	"context"
	"fmt"
	"strings"

	"github.com/cloudwego/netpoll"
	"verif/engine/shim/vsyscall"
	"verif/engine/vsched"
)

// ---- C10: isolation across slot and descriptor reuse (slot.reuse) ----

var staleOps = []string{"Release", "Close", "Next(1)", "Peek(1)", "Skip(1)", "Flush", "Write", "Len", "none"}

func init() {
	register("slot.reuse", func(tier string) []Variant {
		var vs []Variant
		for _, akind := range []string{"client", "server"} {
			for _, aclose := range []string{"user", "peer", "hup-queued+user", "user+peerevent"} {
				for _, op := range append(append([]string{}, staleOps...), "Release@during", "Next(1)@during", "Flush@during") {
					for _, early := range []bool{false, true} {
						if early && op != "none" {
							continue
						}
						if aclose == "user+peerevent" && !(early && op == "none") {
							continue // only with B opened concurrently: the window is "event fetched, not yet dispatched"
						}
						akind, aclose, op, early := akind, aclose, op, early
						vs = append(vs, Variant{
							Name: fmt.Sprintf("A=%s,Aclose=%s,stale=%s,reopen-early=%v", akind, aclose, op, early),
							Make: func() *vsched.Scenario { return slotScenario(akind, aclose, op, early, false) },
						})
						if early || (op == "none" && aclose != "peer") {
							// the same with the poller's spare slot list drained first, so that B's
							// allocation takes the path that has to grow the cache
							vs = append(vs, Variant{
								Name: fmt.Sprintf("A=%s,Aclose=%s,stale=%s,reopen-early=%v,spare-slots=drained", akind, aclose, op, early),
								Make: func() *vsched.Scenario { return slotScenario(akind, aclose, op, early, true) },
							})
						}
					}
				}
			}
		}
		return vs
	})
	// the variants that start with the poller's spare slot list drained, on their own: explored one
	// preemption deeper under the race detector (the cache has to grow while the poller recycles)
	register("slot.drained", func(tier string) []Variant {
		var vs []Variant
		for _, akind := range []string{"client", "server"} {
			for _, aclose := range []string{"user", "user+peerevent", "hup-queued+user"} {
				akind, aclose := akind, aclose
				vs = append(vs, Variant{
					Name: fmt.Sprintf("A=%s,Aclose=%s,stale=none,reopen-early=true,spare-slots=drained", akind, aclose),
					Make: func() *vsched.Scenario { return slotScenario(akind, aclose, "none", true, true) },
				})
			}
		}
		return vs
	})
}

func slotScenario(akind, aclose, stale string, early, drained bool) *vsched.Scenario {
	during := strings.HasSuffix(stale, "@during")
	stale = strings.TrimSuffix(stale, "@during")
	var A, B netpoll.Connection
	var a1, b1, a2, b2 int
	var gotB []byte
	var staleRes string
	var sameSlot, sameFd bool
	var bCloseRet bool
	var bReady hbFlag
	sc := &vsched.Scenario{Name: "slot.reuse", Horizon: 8000}
	sc.Body = func() {
		gotB, staleRes, sameSlot, sameFd, bCloseRet = nil, "", false, false, false
		A, B = nil, nil
		bReady.Reset()
		netpoll.VerifReset(1)
		a1, b1 = vsyscall.HSocketpair(0)
		vsyscall.Adopt(a1)
		mk := func(name string, fd int, server bool, sink *[]byte) netpoll.Connection {
			var c netpoll.Connection
			if server {
				srv := netpoll.VerifNewServer(func(ctx context.Context, c netpoll.Connection) error {
					vsched.LogEvent(name + ":request")
					r := c.Reader()
					p, _ := r.Next(r.Len())
					if sink != nil {
						*sink = append(*sink, p...)
					}
					r.Release()
					return nil
				}, netpoll.WithOnPrepare(func(cc netpoll.Connection) context.Context { c = cc; return context.Background() }))
				srv.Accept(fd, "unix")
			} else {
				cc, err := netpoll.VerifFDConn(fd, "unix")
				if err != nil {
					panic(err)
				}
				c = cc
			}
			c.AddCloseCallback(func(netpoll.Connection) error { vsched.LogEvent(name + ":closecb"); return nil })
			return c
		}
		A = mk("A", a1, akind == "server", nil)
		slotA := netpoll.VerifOperator(A)
		_, _, polls := netpoll.VerifManagerState()
		poll := polls[0]
		if drained {
			for i := 0; i < 4096; i++ {
				if _, spare, _ := netpoll.VerifOpCacheDetail(poll); len(spare) == 0 {
					break
				}
				poll.Alloc() // taken and never registered: only empties the spare list
			}
		}
		// close A
		openB := func() {
			a2, b2 = vsyscall.HSocketpair(0)
			vsyscall.Adopt(a2)
			B = mk("B", a2, true, &gotB)
			sameSlot = netpoll.VerifOperator(B) == slotA
			sameFd = a2 == a1
			vsched.LogEvent(fmt.Sprintf("B:open sameslot=%v", sameSlot))
			bReady.Set()
		}
		var spawnStaleEarly func()
		if during {
			spawnStaleEarly = func() {
				vsched.Go("stale", func() {
					defer func() {
						if p := recover(); p != nil {
							if p == vsched.AbortSentinel {
								panic(p)
							}
							staleRes = "PANIC:" + fmt.Sprint(p)
							vsched.LogEvent("stale:panic")
						}
					}()
					var err error
					switch stale {
					case "Release":
						err = A.Reader().Release()
					case "Next(1)":
						_, err = A.Reader().Next(1)
					case "Flush":
						err = A.Writer().Flush()
					}
					staleRes = errClass(err)
					vsched.LogEvent("stale:done")
				})
			}
			spawnStaleEarly()
		}
		if early {
			// reopen concurrently with A's teardown and the poller's batch: the slot must not be handed out too early
			vsched.Go("opener", openB)
		}
		if aclose == "user" {
			A.Close()
		} else if aclose == "user+peerevent" {
			// the peer acts at the same time, so the poller may have fetched an event for A that it
			// has not dispatched yet when the user closes A and B takes a slot
			vsched.Go("peerA", func() { vsyscall.HClose(b1) })
			A.Close()
		} else if aclose == "hup-queued+user" {
			// the poller has fetched and queued A's hang-up, but the goroutine that delivers it is
			// still waiting to run when the user closes A (and wins), the batch ends and B takes the slot
			vsyscall.HClose(b1)
			ex := vsched.Cur()
			vsched.WaitCond("A-hangup-queued", func() bool {
				for _, t := range ex.Threads() {
					if strings.HasPrefix(t.Name, "go@poll_default.go") {
						return true
					}
				}
				return false
			})
			A.Close()
		} else {
			vsyscall.HClose(b1)
			vsched.WaitCond("A-hangup-seen", func() bool { return netpoll.VerifState(A).Closing != 0 })
			vsched.Settle("after-A-hangup")
			A.Close()
		}
		vsched.LogEvent("A:closed")
		if !early {
			// let the poller finish a batch so that the freed slot becomes allocatable again
			if aclose == "hup-queued+user" {
				// first the teardown has to have given the slot back (it may finish on another thread)
				idx := netpoll.VerifState(A).OpIndex
				vsched.WaitCond("slot-freed", func() bool {
					free, alloc, _ := netpoll.VerifOpCacheDetail(poll)
					for _, i := range append(free, alloc...) {
						if i == idx {
							return true
						}
					}
					return false
				})
			}
			poll.Trigger()
			if aclose == "hup-queued+user" {
				idx := netpoll.VerifState(A).OpIndex
				vsched.WaitCond("slot-allocatable", func() bool {
					_, alloc, _ := netpoll.VerifOpCacheDetail(poll)
					for _, i := range alloc {
						if i == idx {
							return true
						}
					}
					return false
				})
			} else {
				vsched.Settle("after-trigger")
			}
			openB()
		} else {
			vsched.WaitCond("B-open", func() bool { return bReady.IsSet() }) // not "B != nil": the opener publishes B with the flag
		}
		bReady.Acquire()
		b := B
		// stale call on A, concurrent with traffic on B (or, "@during", with A's close and B's open as well)
		spawnStale := func() {
			vsched.Go("stale", func() {
				defer func() {
					if p := recover(); p != nil {
						if p == vsched.AbortSentinel {
							panic(p)
						}
						staleRes = "PANIC:" + fmt.Sprint(p)
						vsched.LogEvent("stale:panic")
					}
				}()
				var err error
				switch stale {
				case "Release":
					err = A.Reader().Release()
				case "Close":
					err = A.Close()
				case "Next(1)":
					_, err = A.Reader().Next(1)
				case "Peek(1)":
					_, err = A.Reader().Peek(1)
				case "Skip(1)":
					err = A.Reader().Skip(1)
				case "Flush":
					err = A.Writer().Flush()
				case "Write":
					_, err = A.Write([]byte("zz"))
				case "Len":
					A.Reader().Len()
				}
				staleRes = errClass(err)
				vsched.LogEvent("stale:done")
			})
		}
		if stale != "none" && !during {
			spawnStale()
		}
		vsched.Go("peerB", func() {
			vsyscall.HWrite(b2, stream(0, 4))
			vsched.LogEvent("B:sent")
		})
		vsched.Settle("traffic")
		vsched.LogEvent("B:close-call")
		b.Close()
		bCloseRet = true
		vsched.LogEvent("B:close-ret")
	}
	sc.Outcome = func(ex *vsched.Exec) string {
		return fmt.Sprintf("stale=%s gotB=%d sameslot=%v samefd=%v", staleRes, len(gotB), sameSlot, sameFd)
	}
	sc.Check = func(ex *vsched.Exec) []vsched.Violation {
		vs := baseChecks("C10", ex, true)
		add := func(sig, msg string) { vs = append(vs, vsched.Violation{Sig: "C10 " + sig, Msg: msg}) }
		l := logIdx{ex}
		tag := " stale=" + stale
		if strings.HasPrefix(staleRes, "PANIC") {
			add("stale-call-panics"+tag, fmt.Sprintf("%s on the closed connection A panicked (slot reused by B: %v): %s", stale, sameSlot, staleRes))
		}
		if ex.End == vsched.EndDeadlock || ex.End == vsched.EndLivelock {
			if !bCloseRet {
				add("bystander-stalled"+tag, "B (the bystander connection) could not finish: "+ex.EndMsg+" "+strings.Join(ex.Blocked, "; "))
			}
			return vs
		}
		if ex.End != vsched.EndQuiescent {
			return vs
		}
		if string(gotB) != string(stream(0, 4)) {
			add("bystander-data"+tag, fmt.Sprintf("B's handler received %d bytes, the peer sent 4 (consumed or injected by activity on A?)", len(gotB)))
		}
		if n := l.count("B:closecb"); n != 1 {
			add("bystander-closecb"+tag, fmt.Sprintf("B's close callback ran %d times", n))
		} else if l.first("B:closecb") < l.first("B:close-call") {
			add("bystander-closed-early"+tag, "B's close callback ran before B was closed (triggered by activity on A)")
		}
		if n := l.count("A:closecb"); n != 1 {
			add("A-closecb-count", fmt.Sprintf("A's close callback ran %d times", n))
		}
		// single owner per slot
		_, _, polls := netpoll.VerifManagerState()
		free, alloc, _ := netpoll.VerifOpCacheDetail(polls[0])
		seen := map[int32]int{}
		for _, i := range free {
			seen[i]++
		}
		for _, i := range alloc {
			seen[i]++
		}
		for idx, n := range seen {
			if n > 1 {
				add("slot-owned-twice", fmt.Sprintf("poller slot %d is on the free/allocation lists %d times", idx, n))
				break
			}
		}
		return vs
	}
	return sc
}
