package main

import (
	"fmt"
	"strings"
	"syscall"

	"github.com/cloudwego/netpoll"
	"verif/engine/shim/vsyscall"
	"verif/engine/vsched"
)

// ---- C11: poll.dispatch - the real event handler called with every flag set x descriptor state ----

var dispStates = []string{"idle", "data3", "data3+fin", "eof", "data3+shutwr"}
var dispKinds = []string{"conn", "conn+out", "onread"}

const (
	fIN    = syscall.EPOLLIN
	fOUT   = syscall.EPOLLOUT
	fRDHUP = syscall.EPOLLRDHUP
	fHUP   = syscall.EPOLLHUP
	fERR   = syscall.EPOLLERR
)

func flagSet(i int) uint32 {
	var f uint32
	for b, v := range []uint32{fIN, fOUT, fRDHUP, fHUP, fERR} {
		if i&(1<<b) != 0 {
			f |= v
		}
	}
	return f
}

func flagName(f uint32) string {
	var s []string
	for _, p := range []struct {
		v uint32
		n string
	}{{fIN, "IN"}, {fOUT, "OUT"}, {fRDHUP, "RDHUP"}, {fHUP, "HUP"}, {fERR, "ERR"}} {
		if f&p.v != 0 {
			s = append(s, p.n)
		}
	}
	if len(s) == 0 {
		return "none"
	}
	return strings.Join(s, "|")
}

func init() {
	register("poll.dispatch", func(tier string) []Variant {
		var vs []Variant
		for _, st := range dispStates {
			for _, k := range dispKinds {
				for _, n := range []int{1, 2} {
					st, k, n := st, k, n
					vs = append(vs, Variant{
						Name: fmt.Sprintf("state=%s,kind=%s,descriptors=%d", st, k, n),
						Make: func() *vsched.Scenario { return dispatchScenario(st, k, n) },
					})
				}
			}
		}
		return vs
	})
}

type onreadStub struct {
	reads, writes, hups int
}

func dispatchScenario(state, kind string, ndesc int) *vsched.Scenario {
	var stubs []*stubOp
	var ors []*onreadStub
	var sent [][]byte
	var flags [2][]uint32 // per batch, per descriptor
	var batches int
	var tokenAfter [][]int32
	var outRecvN []int
	peerClosedState := state == "data3+fin" || state == "eof" || state == "data3+shutwr"
	sc := &vsched.Scenario{Name: "poll.dispatch", Horizon: 6000}
	sc.Body = func() {
		stubs, ors, sent, tokenAfter, outRecvN = nil, nil, nil, nil, nil
		flags = [2][]uint32{}
		netpoll.VerifReset(1)
		netpoll.Initialize()
		_, _, polls := netpoll.VerifManagerState()
		poll := polls[0]
		// the loop thread stays blocked: nothing is written to the wake-up descriptor and the
		// test descriptors are never registered (the handler is called directly)
		for i := 0; i < ndesc; i++ {
			a, b := vsyscall.HSocketpair(0)
			var out []byte
			if kind == "conn+out" {
				out = stream(700, 5)
			}
			s := newStub(i, poll, a, b, 8, out)
			stubs = append(stubs, s)
			or := &onreadStub{}
			ors = append(ors, or)
			if kind == "onread" {
				s.op.Inputs, s.op.InputAck, s.op.Outputs, s.op.OutputAck = nil, nil, nil, nil
				s.op.OnRead = func(p netpoll.Poll) error { or.reads++; s.rec("onread"); return nil }
				s.op.OnWrite = func(p netpoll.Poll) error { or.writes++; s.rec("onwrite"); return nil }
				s.op.OnHup = func(p netpoll.Poll) error { or.hups++; s.hups++; s.rec("hup"); return nil }
			}
			netpoll.VerifOpInuse(s.op, poll)
			var data []byte
			switch state {
			case "data3", "data3+fin", "data3+shutwr":
				data = stream(10*i, 3)
				vsyscall.HWrite(b, data)
			}
			switch state {
			case "data3+fin", "eof":
				vsyscall.HClose(b)
			case "data3+shutwr":
				vsyscall.HShutdown(b, syscall.SHUT_WR)
			}
			sent = append(sent, data)
		}
		batches = 1 + vsched.Choose(2, "batches")
		for bi := 0; bi < batches; bi++ {
			var ops []*netpoll.FDOperator
			var fl []uint32
			for i := 0; i < ndesc; i++ {
				f := flagSet(vsched.Choose(32, "flags"))
				if bi == 1 && stubs[i].hups > 0 {
					continue // a deregistered descriptor produces no further events
				}
				ops = append(ops, stubs[i].op)
				fl = append(fl, f)
			}
			flags[bi] = fl
			vsched.LogEvent(fmt.Sprintf("batch%d:%v", bi, func() []string {
				var s []string
				for _, f := range fl {
					s = append(s, flagName(f))
				}
				return s
			}()))
			if len(ops) > 0 {
				netpoll.VerifHandler(poll, ops, fl)
			}
			vsched.Settle("after-batch")
			var ta []int32
			for i := 0; i < ndesc; i++ {
				st, _ := netpoll.VerifOpState(stubs[i].op)
				ta = append(ta, st)
			}
			tokenAfter = append(tokenAfter, ta)
		}
		// what did the kernel accept on the output path?
		for i := 0; i < ndesc; i++ {
			n := 0
			if !peerClosedState || state == "data3+shutwr" {
				buf := make([]byte, 64)
				k, _ := vsyscall.HRead(stubs[i].pfd, buf)
				if k > 0 {
					n = k
				}
			}
			outRecvN = append(outRecvN, n)
		}
	}
	sc.Outcome = func(ex *vsched.Exec) string {
		var o []string
		for _, s := range stubs {
			o = append(o, strings.Join(s.events, " "))
		}
		return strings.Join(o, " | ")
	}
	sc.Check = func(ex *vsched.Exec) []vsched.Violation {
		vs := baseChecks("C11", ex, false)
		add := func(sig, msg string) { vs = append(vs, vsched.Violation{Sig: "C11 " + sig, Msg: msg}) }
		if ex.End != vsched.EndQuiescent {
			return vs
		}
		led := vsyscall.L()
		l := logIdx{ex}
		for i, s := range stubs {
			var fdesc []string
			for bi := 0; bi < batches; bi++ {
				if i < len(flags[bi]) {
					fdesc = append(fdesc, flagName(flags[bi][i]))
				}
			}
			ctx := fmt.Sprintf("state=%s kind=%s op%d flags=%v events=%v", state, kind, i, fdesc, s.events)
			if len(s.in) > len(sent[i]) || string(s.in) != string(sent[i][:len(s.in)]) {
				add("input-order", ctx+": delivered bytes are not a prefix of what the peer wrote")
			}
			if s.hups > 1 {
				add("hup-twice", ctx+": hang-up reported more than once")
			}
			if len(s.afterHup) > 0 {
				add("callback-after-hup", ctx+": callbacks after the hang-up was reported")
			}
			if s.hups > 0 {
				hi := l.first(fmt.Sprintf("op%d:hup", i))
				det := int32(0)
				_, det = netpoll.VerifOpState(s.op)
				if det == 0 {
					add("hup-before-detach", ctx+": OnHup ran although the operator was never detached")
				}
				_ = hi
				// data before hang-up whenever the kernel said the descriptor was readable
				sawIN := false
				for bi := 0; bi < batches; bi++ {
					if i < len(flags[bi]) && flags[bi][i]&fIN != 0 {
						sawIN = true
					}
				}
				if kind != "onread" && sawIN && len(s.in) != len(sent[i]) && flags[0][i]&fIN != 0 {
					add("hup-before-data", ctx+fmt.Sprintf(": hang-up reported with %d of %d pending bytes delivered although IN was flagged", len(s.in), len(sent[i])))
				}
			}
			for bi := range tokenAfter {
				if tokenAfter[bi][i] != 1 {
					add("token-not-returned", ctx+fmt.Sprintf(": after batch %d the slot token is %d (want 1: in use, not being handled)", bi, tokenAfter[bi][i]))
				}
			}
			// consistent flag sets: the dispatcher's documented reactions
			f0 := flags[0][i]
			consistentIN := (f0&fIN != 0) == (state != "idle")
			consistentHUP := (f0&(fHUP|fRDHUP) != 0) == peerClosedState
			if batches > 1 {
				// a second batch is only judged by the safety clauses above
				consistentIN = false
			}
			if kind != "onread" && consistentIN && consistentHUP && f0&fERR == 0 {
				switch state {
				case "data3":
					if len(s.in) != 3 || s.hups != 0 {
						add("consistent data3", ctx+": 3 pending bytes, peer open: want 3 bytes delivered and no hang-up")
					}
				case "data3+fin", "data3+shutwr":
					if len(s.in) != 3 {
						add("consistent data+fin", ctx+": data followed by the peer's FIN in one wake-up: want all 3 bytes delivered")
					}
				case "eof":
					if s.hups != 1 {
						add("consistent eof", ctx+": peer closed, nothing pending: want exactly one hang-up")
					}
				case "idle":
					if len(s.in) != 0 || s.hups != 0 {
						add("consistent idle", ctx+": nothing pending: want no input and no hang-up")
					}
				}
			}
			// ERR without HUP/RDHUP on a healthy, idle descriptor whose error queue is empty (the
			// probe answers EAGAIN - the shape of a zero-copy completion notice): not a hang-up, the
			// descriptor stays registered and in use
			if batches == 1 && state == "idle" && f0&fERR != 0 && f0&(fHUP|fRDHUP|fIN) == 0 {
				if s.hups != 0 || len(s.in) != 0 {
					add("err-only-benign", ctx+": ERR alone with an empty error queue on a healthy descriptor: want no hang-up (the error-queue probe said EAGAIN)")
				}
			}
			if kind == "conn+out" && f0&fOUT != 0 && f0&(fERR|fHUP|fRDHUP) == 0 && !peerClosedState && s.hups == 0 {
				if s.acked != outRecvN[i] {
					add("output-count", ctx+fmt.Sprintf(": OutputAck was told %d bytes, the peer could read %d", s.acked, outRecvN[i]))
				}
			}
		}
		_ = led
		return vs
	}
	return sc
}
